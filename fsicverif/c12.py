"""C12 - reindex preserves overlapping periods and fills the rest, on a fresh object.

Monitor: every series of the original holds unique ids (a copied cell identifies its
source); the result is compared cell by cell with a loop-level reference (`ref_reindex`),
the original's snapshot is compared before/after, and an identity / shared-memory sweep
runs over the pair."""
import itertools
import warnings

import numpy as np

from . import snap
from .c11 import identity_sweep

PROPERTY = 'C12'
LEVEL = 'exploration'
RULE = ('all (old span, new span) pairs over a label universe of 6 with |old| <= 4 (unique labels) and |new| <= 4 (repeats allowed), '
        'rendered as range / list / tuple / NumPy array / pandas Index / PeriodIndex / DatetimeIndex spans, x dtypes float/int/bool/str x '
        '{no fill, fill_value, per-variable fills, unknown fill keyword} x strict, on containers, solved / partly solved models and the '
        'pandas-based mixin with default arguments. non-trivial = distinct (span type, old, new, fill options) tuple')
ASSUMPTIONS = ['a per-variable keyword given as None (or as a falsy value 0 / False / \'\') is still "given": fill_value does not apply to that variable, and None selects its dtype default',
               'fill values are compared after the cast to the variable\'s dtype (what "dtypes carry over" implies)',
               'a label repeated in the old span addresses its first occurrence, as label lookup does; exercised for list / tuple spans only - NumPy-array and pandas '
               'spans refuse a repeated label at lookup (C05, C10: KeyError), so what reindex() should carry over from them is not defined by the statement']
ANCHORS = [('fsic/core/containers.py', 'VectorContainer.reindex'), ('fsic/core/models.py', 'BaseModel.reindex'),
           ('fsic/extensions/model.py', 'PandasIndexFeaturesMixin.reindex')]
REQUIRED_COUNTERS = {'reindex_calls': 1000, 'cells_compared': 10000, 'originals_compared': 1000, 'identity_sweeps': 500}
LEVEL_TEXT = ('Reference-model monitor over an exhaustive enumeration of small span pairs for every span type, dtype and fill option, '
              'with unique-id cells, original-unchanged snapshots and an identity sweep of result vs original.')
LEVEL_NOTE = 'Trusted: ref_reindex (20 lines) and NumPy casting used to express "fill cast to the dtype". Exhaustive only up to span length 4 over 6 labels.'
TECHNIQUE = 'unique-id cells + loop-level reference reindex + snapshots / identity sweep (runtime monitor)'
EXHAUSTIVE = {'quick': False, 'thorough': True}
DEFAULTS = {'f': np.nan, 'i': 0, 'u': 0, 'b': False, 'U': ''}


def nshards(tier):
    return 16


def universes():
    """Label universes (6 labels each) and how to build a span of a given type from label indices."""
    import pandas as pd
    ints = [2000, 2001, 2002, 2003, 2004, 2005]
    strs = ['a', 'b', 'c', 'dd', 'e1', 'F']
    per = list(pd.period_range('2000Q3', periods=6, freq='Q'))
    ann = list(pd.period_range('1999', periods=6, freq='Y'))
    days = list(pd.date_range('2001-02-27', periods=6, freq='D'))
    mixed = [(1, 2), 'x', 3, 2.5, frozenset({1}), -7]
    return {
        'list[int]': (ints, list), 'tuple[int]': (ints, tuple), 'range': (ints, None), 'range-stepped': (ints, None), 'list[str]': (strs, list),
        'list[mixed]': (mixed, list), 'ndarray[int]': (ints, np.array), 'ndarray[str]': (strs, np.array),
        'pd.Index[int]': (ints, pd.Index), 'pd.Index[str]': (strs, pd.Index), 'pd.PeriodIndex[Q]': (per, pd.PeriodIndex),
        'pd.PeriodIndex[Y]': (ann, pd.PeriodIndex), 'pd.DatetimeIndex': (days, pd.DatetimeIndex),
    }


def build_span(kind, labels, make, idx):
    if kind == 'range-stepped':
        # stepped / descending ranges: any index run that is an arithmetic progression (two stepped ranges of the same step need
        # not be in phase: they may share no label at all)
        if len(idx) < 2:
            return range(labels[idx[0]], labels[idx[0]] + 1) if idx else range(0)
        d = idx[1] - idx[0]
        if d == 0 or any(idx[i + 1] - idx[i] != d for i in range(len(idx) - 1)):
            return None
        return range(labels[idx[0]], labels[idx[0]] + d * len(idx), d)
    if kind == 'range':
        # only contiguous ascending index runs can be a range
        if list(idx) != list(range(idx[0], idx[0] + len(idx))) if idx else False:
            return None
        return range(labels[idx[0]], labels[idx[0]] + len(idx)) if idx else range(0)
    if make in (list, tuple):
        return make(labels[i] for i in idx)
    if make is np.array:
        return np.array([labels[i] for i in idx]) if idx else np.array([], dtype=np.array(labels).dtype)
    return make(labels)[list(idx)] if len(idx) else make(labels)[:0]


def ref_reindex(old_labels, new_labels, series, fills):
    """series: name -> (array); fills: name -> value or None.  Returns name -> expected array."""
    out = {}
    for name, arr in series.items():
        kind = arr.dtype.kind
        fill = fills.get(name)
        if fill is None:
            fill = DEFAULTS[kind]
        res = np.empty(len(new_labels), dtype=arr.dtype)
        for i, lab in enumerate(new_labels):
            src = None
            for j, ol in enumerate(old_labels):
                if ol == lab:
                    src = j
                    break
            if src is not None:
                res[i] = arr[src]
            else:
                if kind == 'b':
                    res[i] = bool(fill)
                elif kind in 'iu':
                    res[i] = int(fill)
                elif kind == 'U':
                    res[i] = str(fill)
                else:
                    res[i] = fill
        out[name] = res
    return out


def same(a, b):
    a, b = np.asarray(a), np.asarray(b)
    if a.shape != b.shape or a.dtype != b.dtype:
        return False
    if a.dtype.kind == 'f':
        return bool(np.array_equal(a, b, equal_nan=True))
    return a.tolist() == b.tolist()


def populate(obj, n, is_model):
    ids = {'X': np.arange(n, dtype=float) + 1000.5, 'K': np.arange(n, dtype=np.int64) + 10, 'B': np.array([i % 2 == 0 for i in range(n)], dtype=bool),
           'S': np.array([f's{i}' for i in range(n)], dtype='<U2'),
           # non-default widths: every integer / floating dtype has the integer / floating default fill
           'I': np.arange(n, dtype=np.int32) + 20, 'U': np.arange(n, dtype=np.uint8) + 200, 'H': np.arange(n, dtype=np.float32) + 0.25,
           'J': np.arange(n, dtype=np.int16) - 3,
           # variables named like members of the object (a property, a method): variables all the same
           'size': np.arange(n, dtype=float) - 7.25, 'copy': np.arange(n, dtype=np.int64) + 70,
           # ... and like the instance's own plain attributes (reading obj.span / obj.index still gives the attribute; only
           # assignment through the attribute goes to the variable)
           'span': np.arange(n, dtype=float) * 2 + 0.5, 'index': np.arange(n, dtype=np.int64) - 90}
    if not is_model:
        # a plain container may hold variables that merely share the names of a model's solution records: ordinary variables
        ids['status'] = np.array([f'q{i}' for i in range(n)], dtype='<U2')
        ids['iterations'] = np.arange(n, dtype=np.int64) + 40
    for name, arr in ids.items():
        if name in obj.__dict__['index']:
            obj.__dict__['_' + name][:] = arr
        else:
            obj.add_variable(name, arr.copy(), dtype=arr.dtype)
    if is_model:
        st = np.array(['.', 'F', '-', 'E', 'S', '.'][:n])
        obj.__dict__['_status'][:] = st
        obj.__dict__['_iterations'][:] = np.arange(n) + 3
    obj.add_attribute('memo', ['keep', [1, 2]])


def classes():
    import fsic
    from fsic.core import VectorContainer
    from fsic.extensions.model import PandasIndexFeaturesMixin
    Base = fsic.build_model(fsic.parse_model('X = X[-1] + Z[1]'))

    class P(PandasIndexFeaturesMixin, Base):
        pass

    return {'container': VectorContainer, 'model': Base, 'pandas-mixin': P}


def one_case(ctx, cls_name, cls, kind, labels, make, old_idx, new_idx, opts):
    old_span = build_span(kind, labels, make, old_idx)
    new_span = build_span(kind, labels, make, new_idx)
    if old_span is None or new_span is None:
        return
    is_model = cls_name != 'container'
    case = {'cls': cls_name, 'span_kind': kind, 'old': list(old_idx), 'new': list(new_idx), 'opts': opts}
    ctx.evaluation(case, nontrivial=True, sample=case)
    try:
        obj = cls(old_span, strict=opts.get('obj_strict', False)) if is_model else cls(old_span, strict=opts.get('obj_strict', False))
    except Exception as e:
        ctx.count('construction_failed')
        return
    populate(obj, len(old_idx), is_model)
    if is_model:
        obj.lags, obj.leads = 2, 1
    for i in old_idx:
        if labels[i] is not None:
            obj['K', labels[i]]        # look-ups on the original must not influence the result
    before = snap.snapshot(obj)
    kw = {}
    fills = {}
    if 'fill_value' in opts:
        kw['fill_value'] = opts['fill_value']
    for name, v in opts.get('fills', {}).items():
        kw[name] = v
    if opts.get('strict') is not None:
        kw['strict'] = opts['strict']
    eff_strict = opts['strict'] if opts.get('strict') is not None else opts.get('obj_strict', False)
    unknown = [k for k in opts.get('fills', {}) if k not in obj.__dict__['index']]
    from .common import h64
    caller_filter = ['ignore', 'error', 'always'][h64(['wf', case]) % 3]     # the caller's own warnings action decides nothing here
    case['caller_filter'] = caller_filter
    with warnings.catch_warnings():
        warnings.simplefilter(caller_filter)
        try:
            res = obj.reindex(new_span, **kw)
            exc = None
        except Exception as e:
            res, exc = None, e
    ctx.count('reindex_calls')
    ctx.count('originals_compared')
    d = snap.diff(before, snap.snapshot(obj))
    if d:
        ctx.violation('reindex-mutates-original', f'reindex changed the original at {d[:5]}', case)
        return
    if unknown and eff_strict:
        if not isinstance(exc, KeyError):
            ctx.violation('unknown-fill-keyword-strict', f'unknown fill keyword(s) {unknown} under strict: expected KeyError, got {repr(exc) if exc else "a result"}', case)
        return
    if exc is not None:
        ctx.violation('reindex-raises', f'{cls_name}.reindex({kind} {list(new_idx)}, **{kw}) raised {type(exc).__name__}: {exc}', case)
        return
    if type(res) is not type(obj):
        ctx.violation('reindex-class', f'result is a {type(res).__name__}, original a {type(obj).__name__}', case)
        return
    if res is obj:
        ctx.violation('reindex-returns-self', 'reindex returned the original object', case)
        return
    # span of the result is the new span
    rs = res.__dict__['span']
    if type(rs) is not type(new_span):
        ctx.violation('reindex-span', f'the result\'s span is a {type(rs).__name__}; the span given to reindex() is a {type(new_span).__name__} ({kind})', case)
        return
    if len(rs) != len(new_idx) or not all(x == y for x, y in zip(rs, [labels[i] for i in new_idx])):
        ctx.violation('reindex-span', f'result span {list(rs)} is not the requested span {[labels[i] for i in new_idx]}', case)
        return
    # expected contents
    series = {k: np.asarray(obj.__dict__['_' + k]) for k in obj.__dict__['index']}
    for k in series:
        fills[k] = opts.get('fills', {}).get(k, opts.get('fill_value'))
    if is_model:
        if 'status' not in opts.get('fills', {}):
            fills['status'] = '-'
        if 'iterations' not in opts.get('fills', {}):
            fills['iterations'] = -1
    want = ref_reindex([labels[i] for i in old_idx], [labels[i] for i in new_idx], series, fills)
    if list(res.__dict__['index']) != list(obj.__dict__['index']):
        ctx.violation('reindex-variable-order', f'variable order {res.index} differs from {obj.index}', case)
        return
    for k in series:
        got = np.asarray(res.__dict__['_' + k])
        ctx.count('cells_compared', len(new_idx))
        if not same(got, want[k]):
            ctx.violation('reindex-values', f'{cls_name} over {kind}: variable {k} old labels {[labels[i] for i in old_idx]} -> new {[labels[i] for i in new_idx]}: got {got.tolist()} ({got.dtype}), expected {want[k].tolist()} ({want[k].dtype}) with {kw}', case)
            return
    # label access on the result addresses the new span (not positions remembered from the old one)
    new_labels = [labels[i] for i in new_idx]
    for i, lab in enumerate(new_labels):
        if new_labels.count(lab) != 1 or lab is None:
            continue    # label access is specified for unique labels only
        try:
            got = res['K', lab]
        except Exception as e:
            ctx.violation('reindex-label-access', f'after reindex, result["K", {lab!r}] raised {type(e).__name__}: {e}', case)
            return
        ctx.count('label_reads_after_reindex')
        if np.ndim(got) != 0 or got != want['K'][i]:
            ctx.violation('reindex-label-access', f'after reindex, result["K", {lab!r}] = {got!r} but position {i} of the new span holds {want["K"][i]!r}', case)
            return
    for i in old_idx:
        if i not in new_idx and labels[i] is not None:
            try:
                r = res['K', labels[i]]
                ctx.violation('reindex-label-access', f'label {labels[i]!r} was dropped by reindex but result["K", label] returned {r!r}', case)
                return
            except KeyError:
                pass
            except Exception as e:
                ctx.violation('reindex-label-access', f'dropped label {labels[i]!r}: expected KeyError, got {type(e).__name__}', case)
                return
    # attributes, lags / leads
    for a in ('memo', 'lags', 'leads', 'names', 'endogenous', 'check'):
        if a in obj.__dict__ and repr(res.__dict__.get(a)) != repr(obj.__dict__[a]):
            ctx.violation('reindex-attributes', f'attribute {a}: {res.__dict__.get(a)!r} != {obj.__dict__[a]!r}', case)
            return
    if res.strict != obj.strict:
        ctx.violation('reindex-attributes', 'strict flag not carried over', case)
        return
    # shares nothing with the original (the new span object itself is the caller's)
    span_backup = res.__dict__['span']
    res.__dict__['span'] = None
    ok = identity_sweep(ctx, obj, res, case)
    res.__dict__['span'] = span_backup
    if not ok:
        return
    # mutation of the result must not reach the original
    res.__dict__['_X'][...] = -1
    res.__dict__['memo'][1].append(99)
    if snap.diff(before, snap.snapshot(obj)):
        ctx.violation('reindex-shares-state', 'writing to the result changed the original', case)


def option_sets(rng, k):
    base = [{}, {'fill_value': 7}, {'fill_value': 2.7}, {'fills': {'X': -1.5}}, {'fills': {'K': 9, 'S': 'zz'}}, {'fill_value': 0, 'fills': {'B': True}},
            {'fills': {'NOPE': 1}}, {'fills': {'NOPE': 1}, 'strict': True}, {'fills': {'NOPE': 1}, 'obj_strict': True}, {'fills': {'X': 3}, 'strict': True},
            {'fills': {'NOPE': 1}, 'obj_strict': True, 'strict': False}, {'fills': {'status': 'Q', 'iterations': 5}}, {'fill_value': True}, {'fill_value': 'q'},
            {'fill_value': 7, 'fills': {'X': None, 'K': 0}}, {'fill_value': 3, 'fills': {'B': False, 'S': '', 'K': None}},
            # fills that compare (and hash) equal but are different values once written into a text or float variable
            {'fills': {'S': True}}, {'fills': {'S': 1}}, {'fills': {'S': 1.0}}, {'fills': {'S': 0}}, {'fills': {'S': False}}, {'fills': {'S': 0.0, 'X': -0.0}},
            {'fills': {'X': 0, 'S': -0.0}}, {'fills': {'X': False, 'S': np.float32(1)}},
            # falsy fills for a model's solution records are fills like any other
            {'fills': {'status': '', 'iterations': 0}}, {'fills': {'iterations': 0}}, {'fills': {'status': ''}, 'fill_value': 4}]
    return base if k is None else rng.sample(base, k)


def empty_containers(ctx, U):
    """A container without variables is reindexed like any other: the result's span is the new span (variables added to it
    afterwards have one element per *new* period), the original keeps its own."""
    from fsic.core import VectorContainer
    for kind, (labels, make) in U.items():
        for old_idx, new_idx in (((0, 1, 2), (1, 2, 3, 4)), ((0, 1, 2, 3), (2, 3)), ((0, 1), (3, 4, 5)), ((1, 2), (1, 2))):
            old_span, new_span = build_span(kind, labels, make, old_idx), build_span(kind, labels, make, new_idx)
            if old_span is None or new_span is None:
                continue
            case = {'cls': 'container', 'span_kind': kind, 'old': list(old_idx), 'new': list(new_idx), 'opts': {}, 'variables': 'none'}
            ctx.evaluation(('empty-container', kind, old_idx, new_idx), nontrivial=True, sample=case)
            c = VectorContainer(old_span)
            try:
                r = c.reindex(new_span)
                r.add_variable('Late', 1.5)
            except Exception as e:
                ctx.violation('reindex-raises', f'reindex of a container without variables ({kind}) raised {type(e).__name__}: {e}', case)
                continue
            ctx.count('reindex_calls')
            if len(r.span) != len(new_idx) or not all(x == y for x, y in zip(r.span, [labels[i] for i in new_idx])) or len(r.Late) != len(new_idx) or len(c.span) != len(old_idx):
                ctx.violation('reindex-span', f'reindex of a container without variables ({kind}): result span {list(r.span)}, requested {[labels[i] for i in new_idx]}; a variable added afterwards has {len(r.Late)} elements', case)


def run_shard(ctx):
    rng = ctx.rng('c12')
    U = universes()
    C = classes()
    if ctx.shard == 0:
        empty_containers(ctx, U)
    maxlen = ctx.pick(3, 4)
    idx = 0
    olds = [p for r in range(0, maxlen + 1) for p in itertools.permutations(range(6), r)]
    news = [p for r in range(0, maxlen + 1) for p in itertools.product(range(6), repeat=r)]
    if ctx.quick:
        olds = [o for o in olds if len(o) <= 3]
    pairs_total = len(olds) * len(news)
    per_kind = ctx.pick(700, 9000)
    for kind, (labels, make) in U.items():
        ctx.seen('span_kinds', kind)
        for rep in range(per_kind):
            idx += 1
            if not ctx.mine(idx):
                continue
            old = rng.choice(olds)
            new = rng.choice(news)
            cls_name = rng.choice(['container', 'model', 'model', 'pandas-mixin'])
            if kind in ('list[int]', 'tuple[int]', 'list[str]', 'list[mixed]') and cls_name != 'pandas-mixin' and len(old) >= 2 and rng.random() < 0.25:
                # a label repeated in the *old* span (lists / tuples, where label lookup is defined: the first occurrence)
                old = list(old)
                old[rng.randrange(1, len(old))] = old[0]
                old = tuple(old)
                ctx.count('old_spans_with_repeated_label')
            for opts in option_sets(rng, 2):
                if cls_name == 'container' and any(k in ('status', 'iterations') for k in opts.get('fills', {})):
                    continue
                if opts.get('fill_value') == 'q' or (cls_name == 'pandas-mixin' and False):
                    # a string fill for numeric variables cannot be cast: the statement does not define it
                    continue
                one_case(ctx, cls_name, C[cls_name], kind, labels, make, old, new, opts)
    # every pair of stepped / descending ranges over the label universe (arithmetic progressions of 2..4 labels, steps -3..3)
    labels, make = U['range-stepped']
    aps = [tuple(range(a, a + d * k, d)) for a in range(6) for d in (-3, -2, -1, 1, 2, 3) for k in (2, 3, 4) if all(0 <= x < 6 for x in range(a, a + d * k, d))]
    for i, old in enumerate(aps):
        for j, new in enumerate(aps):
            idx += 1
            if not ctx.mine(idx) or (ctx.quick and (i + j) % 3):
                continue
            ctx.count('stepped_range_pairs')
            one_case(ctx, 'model' if (i + j) % 2 else 'container', C['model' if (i + j) % 2 else 'container'], 'range-stepped', labels, make, old, new, {} if (i * j) % 3 else {'fill_value': 7})
    # exhaustive small block: list[int] x container/model, lengths <= 2, every option set
    for old in [o for o in olds if len(o) <= 2]:
        for new in [n for n in news if len(n) <= 2]:
            idx += 1
            if not ctx.mine(idx):
                continue
            for cls_name in ('container', 'model'):
                for opts in option_sets(rng, None):
                    if cls_name == 'container' and any(k in ('status', 'iterations') for k in opts.get('fills', {})):
                        continue
                    if opts.get('fill_value') == 'q':
                        continue
                    one_case(ctx, cls_name, C[cls_name], 'list[int]', U['list[int]'][0], list, old, new, opts)


def replay(ctx, case):
    U, C = universes(), classes()
    labels, make = U[case['span_kind']]
    one_case(ctx, case['cls'], C[case['cls']], case['span_kind'], labels, make, tuple(case['old']), tuple(case['new']), case['opts'])
