"""C19 - tabular export and import are faithful round trips.

Monitor: cell-by-cell comparison of exported tables with the series they came from
(unique-id values), of re-imported models with the originals, and Symbol-tuple equality
after symbols -> DataFrame -> symbols, over generated models/programs, span types and
flag combinations."""
import itertools
import warnings

import numpy as np

from . import gen, spans
from .c01 import parser_errors

PROPERTY = 'C19'
LEVEL = 'exploration'
RULE = ('models built from random C01-grammar programs plus extra int/bool/str/float and underscore-prefixed variables, solved and '
        'unsolved, over every span type of the catalogue (lengths 1..5) x all 8 flag combinations (status, iterations, '
        'include_internal) for model, linker and container exports; from_dataframe round trips; symbol-table round trips for every '
        'symbol list the generator\'s programs produce (functions, keywords, verbatim symbols with None fields). '
        'non-trivial = distinct (script, span kind, flags) or distinct symbol list')
ASSUMPTIONS = ['string series may come back with a pandas string/object dtype; only numeric and boolean dtypes must be preserved',
               'from_dataframe reproduces the variables in NAMES (extra columns are not model variables)']
ANCHORS = [('fsic/tools.py', 'symbols_to_dataframe'), ('fsic/tools.py', 'dataframe_to_symbols'), ('fsic/tools.py', 'model_to_dataframe'),
           ('fsic/tools.py', 'linker_to_dataframes'), ('fsic/core/models.py', 'BaseModel.from_dataframe'),
           ('fsic/core/containers.py', 'VectorContainer.to_dataframe')]
REQUIRED_COUNTERS = {'exports_compared': 500, 'cells_compared': 5000, 'imports_compared': 50, 'symbol_round_trips': 100}
LEVEL_TEXT = ('Round-trip monitors with exact cell / tuple comparison over generated models, span types and all flag combinations.')
LEVEL_NOTE = 'Trusted: pandas DataFrame accessors used to read the exported table back.'
TECHNIQUE = 'round-trip differential monitor with unique-id cells'


def nshards(tier):
    return 16


def col_equal(col, arr):
    x = np.asarray(col.values if hasattr(col, 'values') else col)
    a = np.asarray(arr)
    if a.dtype.kind in 'fiub':
        if x.dtype != a.dtype:
            return f'dtype {x.dtype} != {a.dtype}'
        if a.dtype.kind == 'f':
            return None if np.array_equal(x, a, equal_nan=True) else 'values differ'
        return None if x.tolist() == a.tolist() else 'values differ'
    return None if [str(v) for v in x.tolist()] == [str(v) for v in a.tolist()] else 'values differ'


def check_frame(ctx, df, obj, names, span_list, flags, what, case):
    ctx.count('exports_compared')
    if len(df.index) != len(span_list) or not all(a == b for a, b in zip(df.index, span_list)):
        ctx.violation('export-index', f'{what}: index {list(df.index)[:6]} is not the span {span_list[:6]}', case)
        return False
    import pandas as _pd
    sp = obj.__dict__['span']
    if isinstance(sp, _pd.Index):
        # "indexed by the span": when the span is a pandas index, the table's index is that kind of index, with its name(s) and frequency
        if type(df.index) is not type(sp) or list(df.index.names) != list(sp.names) or getattr(df.index, 'freq', None) != getattr(sp, 'freq', None):
            ctx.violation('export-index', f'{what}: the span is a {type(sp).__name__} (names {list(sp.names)}, freq {getattr(sp, "freq", None)}); the table is indexed by a {type(df.index).__name__} '
                                          f'(names {list(df.index.names)}, freq {getattr(df.index, "freq", None)})', case)
            return False
    want_cols = list(names)
    if flags.get('status', True) and 'status' in obj.__dict__['index']:
        want_cols.append('status')
    if flags.get('iterations', True) and 'iterations' in obj.__dict__['index']:
        want_cols.append('iterations')
    if list(df.columns) != want_cols:
        ctx.violation('export-columns', f'{what} with {flags}: columns {list(df.columns)}, expected {want_cols}', case)
        return False
    for c in want_cols:
        ctx.count('cells_compared', len(span_list))
        err = col_equal(df[c], obj.__dict__['_' + c])
        if err:
            ctx.violation('export-values', f'{what}: column {c}: {err}: {df[c].tolist()} vs {np.asarray(obj.__dict__["_" + c]).tolist()}', case)
            return False
    return True


def decorate(m, n, rng):
    """Unique-id values plus extra variables of several dtypes and underscore names."""
    for j, nm in enumerate(m.names):
        m.__dict__['_' + nm][:] = np.arange(n, dtype=float) * 1.5 + 100 * (j + 1)
    if rng.random() < 0.3:
        # every variable a float, but of differing widths (and nothing of another kind): each column keeps its own dtype
        m.add_variable('P32', np.arange(n) * 0.5 + 1, dtype=np.float32)
        m.add_variable('H16', np.arange(n) * 0.25, dtype=np.float16)
        m.add_variable('_p32', np.arange(n) * 2.0, dtype=np.float32)
        return
    m.add_variable('K_int', np.arange(n) + 7, dtype=int)
    m.add_variable('B_bool', [i % 2 == 0 for i in range(n)], dtype=bool)
    m.add_variable('S_str', [f's{i}' for i in range(n)], dtype=str)
    m.add_variable('_hidden', np.arange(n) * -1.0)
    m.add_variable('_k', np.arange(n), dtype=int)
    m.add_variable('F2', 0.25)
    # internal names of unusual shapes: the underscore alone, two leading underscores, underscore + digit, underscore + non-ASCII
    for j, nm in enumerate(('_', '__cache', '_9', '_é')):
        if nm not in m.names and rng.random() < 0.6:
            m.add_variable(nm, np.arange(n) * 0.5 - 7 * (j + 1))
    # an internal variable whose name shadows the private storage of a public one ('_Y' next to 'Y')
    first = m.names[0]
    if not first.startswith('_') and '_' + first not in m.names:
        m.add_variable('_' + first, np.arange(n) * 3.25 - 1000)


def one_model(ctx, script, spec, rng, solved):
    import fsic
    from fsic import tools
    try:
        symbols = fsic.parse_model(script)
        Model = fsic.build_model(symbols)
    except Exception:
        ctx.count('program_rejected')
        return
    n = spec.n
    try:
        m = Model(spec.make())
    except Exception as e:
        ctx.count('instantiation_failed')
        return
    if not solved:
        integer_model_round_trip(ctx, Model, spec, script, rng)
    decorate(m, n, rng)
    if solved:
        with warnings.catch_warnings():
            warnings.simplefilter('ignore')
            try:
                m.solve(failures='ignore', errors='ignore', max_iter=3)
            except Exception:
                pass
    span_list = list(m.span)
    for st, it, internal in itertools.product([True, False], repeat=3):
        flags = dict(status=st, iterations=it, include_internal=internal)
        case = {'script': script, 'span_kind': spec.kind, 'n': n, 'flags': flags, 'solved': solved}
        ctx.evaluation((script, spec.kind, n, st, it, internal, solved), nontrivial=True, sample=case)
        names = [x for x in m.names if internal or not x.startswith('_')]
        for what, f in (('to_dataframe', lambda: m.to_dataframe(**flags)), ('model_to_dataframe', lambda: tools.model_to_dataframe(m, **flags))):
            try:
                df = f()
            except Exception as e:
                ctx.violation('export-raises', f'{what}({flags}) on {spec.kind} raised {type(e).__name__}: {e}', case)
                return
            if not check_frame(ctx, df, m, names, span_list, flags, what, case):
                return
    # default flags
    if list(m.to_dataframe().columns) != [x for x in m.names if not x.startswith('_')] + ['status', 'iterations']:
        ctx.violation('export-columns', 'default to_dataframe() columns are not variables + status + iterations', {'script': script, 'span_kind': spec.kind})
    # ---- the table holds the values of the moment of the export: a later in-place change of the model is not in it ----
    df = m.to_dataframe(include_internal=True)
    image = df.copy(deep=True)
    backup = {nm: m.__dict__['_' + nm].copy() for nm in m.__dict__['index']}
    for nm in m.__dict__['index']:
        arr = m.__dict__['_' + nm]
        if arr.dtype.kind in 'fi':
            arr += 1
        elif arr.dtype.kind == 'b':
            arr[:] = ~arr
        elif arr.dtype.kind == 'U':
            arr[:] = 'Z'
    ctx.count('export_snapshots_compared')
    same_after = all(col_equal(df[c], image[c].values) is None for c in image.columns) and list(df.columns) == list(image.columns)
    for nm, arr in backup.items():
        m.__dict__['_' + nm][:] = arr
    if not same_after:
        bad = [c for c in image.columns if col_equal(df[c], image[c].values) is not None]
        ctx.violation('export-aliases-model', f'to_dataframe() on {spec.kind}: after the export, changing the model in place changed the exported table (columns {bad[:4]})',
                      {'script': script, 'span_kind': spec.kind, 'n': n, 'solved': solved})
        return
    # ---- import ---------------------------------------------------------------------------------
    data_cols = list(Model.NAMES)
    df = m.to_dataframe(status=False, iterations=False)
    case = {'script': script, 'span_kind': spec.kind, 'n': n, 'op': 'from_dataframe'}
    ctx.evaluation((script, spec.kind, n, 'import'), nontrivial=True)
    try:
        m2 = Model.from_dataframe(df[data_cols])
    except Exception as e:
        ctx.violation('import-raises', f'from_dataframe on {spec.kind} raised {type(e).__name__}: {e}', case)
        return
    ctx.count('imports_compared')
    s2 = list(m2.span)
    if len(s2) != n or not all(a == b for a, b in zip(s2, span_list)):
        ctx.violation('import-span', f'from_dataframe span {s2[:5]} != original {span_list[:5]}', case)
        return
    import pandas as _pd
    if isinstance(m.span, (_pd.DatetimeIndex, _pd.PeriodIndex, _pd.TimedeltaIndex, _pd.MultiIndex)) and type(m2.span) is not type(m.span):
        # a time index is a span type of its own (labels may be spelled as date strings): it comes back as what it was
        ctx.violation('import-span', f'from_dataframe turned the {type(m.span).__name__} span of the table into a {type(m2.span).__name__}', case)
        return
    for nm in data_cols:
        if not np.array_equal(np.asarray(m2[nm]), np.asarray(m[nm]), equal_nan=True):
            ctx.violation('import-values', f'from_dataframe: {nm} = {m2[nm].tolist()} != {m[nm].tolist()}', case)
            return
    if list(m2.status) != ['-'] * n:
        ctx.count('import_status_not_default')
    # the same round trip for a class with aliases, exported under its alias names
    if data_cols and 'Alias0' not in data_cols:
        from fsic.extensions import AliasMixin
        AM = type('AM', (AliasMixin, Model), {'ALIASES': {'Alias0': data_cols[0], 'Alias1': 'Alias0'}, 'PREFERRED_NAMES': ['Alias1']})
        try:
            ma = AM(spec.make(), **{nm: np.asarray(m[nm]).copy() for nm in data_cols})
            dfa = ma.to_dataframe(use_aliases=True, status=False, iterations=False)
            m4 = AM.from_dataframe(dfa)
            # the extension's own to_dataframe() honours the same flags as the plain one
            for st, it in itertools.product([True, False], repeat=2):
                fl = dict(status=st, iterations=it)
                if not check_frame(ctx, ma.to_dataframe(**fl), ma, list(ma.names), list(ma.span), dict(fl, include_internal=False), 'AliasMixin.to_dataframe', dict(case, flags=fl)):
                    return
        except Exception as e:
            ctx.violation('import-raises', f'alias-named export / from_dataframe on {spec.kind} raised {type(e).__name__}: {e}', case)
            return
        ctx.count('imports_compared')
        for nm in data_cols:
            if not np.array_equal(np.asarray(m4[nm]), np.asarray(m[nm]), equal_nan=True):
                ctx.violation('import-values', f'from_dataframe of a table with alias-named columns {list(dfa.columns)}: {nm} = {m4[nm].tolist()} != {m[nm].tolist()}', case)
                return
    # a variable that is missing (NaN) in every period, and one missing in some: "every value" includes them
    if data_cols and n:
        m.__dict__['_' + data_cols[-1]][:] = np.nan
        m.__dict__['_' + data_cols[0]][::2] = np.nan
        df = m.to_dataframe(status=False, iterations=False)
        try:
            m3 = Model.from_dataframe(df[data_cols])
        except Exception as e:
            ctx.violation('import-raises', f'from_dataframe with NaN columns on {spec.kind} raised {type(e).__name__}: {e}', case)
            return
        ctx.count('imports_compared')
        for nm in data_cols:
            if not np.array_equal(np.asarray(m3[nm]), np.asarray(m[nm]), equal_nan=True):
                ctx.violation('import-values', f'from_dataframe: {nm} exported as {m[nm].tolist()} but re-imported as {m3[nm].tolist()}', case)
                return


def integer_model_round_trip(ctx, Model, spec, script, rng):
    """A model whose variables are integers (dtype=int), holding unique values that no float64 represents, exported next
    to columns of other dtypes: from_dataframe(..., dtype=int) reproduces every one of them exactly."""
    n = spec.n
    data_cols = list(Model.NAMES)
    try:
        m = Model(spec.make(), dtype=int)
    except Exception:
        return
    big = 2 ** 53 + 1
    for j, nm in enumerate(data_cols):
        sign = -1 if j % 2 else 1
        m.__dict__['_' + nm][:] = [sign * (big + 2 * (j * n + i)) for i in range(n)]
    m.add_variable('share', 0.25, dtype=float)
    m.add_variable('flag', True, dtype=bool)
    for status, iterations, extra in ((False, False, ['share']), (False, True, ['share']), (True, False, ['share']), (False, False, ['share', 'flag']), (False, False, [])):
        case = {'script': script, 'span_kind': spec.kind, 'n': n, 'op': 'from_dataframe(dtype=int)', 'status': status, 'iterations': iterations, 'extra': extra}
        ctx.evaluation((script, spec.kind, n, 'int-import', status, iterations, tuple(extra)), nontrivial=True)
        table = m.to_dataframe(status=status, iterations=iterations)
        keep = data_cols + extra + [c for c in ('status', 'iterations') if c in table.columns]
        try:
            m2 = Model.from_dataframe(table[keep], dtype=int)
        except Exception as e:
            ctx.violation('import-raises', f'from_dataframe(dtype=int) on {spec.kind} with columns {keep} raised {type(e).__name__}: {e}', case)
            return
        ctx.count('integer_imports_compared')
        for nm in data_cols:
            if m2[nm].tolist() != m[nm].tolist() or m2[nm].dtype != m[nm].dtype:
                ctx.violation('import-values', f'from_dataframe(dtype=int) next to columns {extra} (status={status}, iterations={iterations}): {nm} = {m2[nm].tolist()[:3]} ({m2[nm].dtype}) != {m[nm].tolist()[:3]} ({m[nm].dtype})', case)
                return


def containers_and_linkers(ctx, spec, rng):
    import fsic
    from fsic import tools
    from fsic.core import VectorContainer
    n = spec.n
    span_list = list(spec.make())
    c = VectorContainer(spec.make())
    c.add_variable('X', np.arange(n) * 0.5)
    c.add_variable('K', np.arange(n), dtype=int)
    c.add_variable('B', True, dtype=bool)
    c.add_variable('_u', 1.0)
    case = {'kind': 'container', 'span_kind': spec.kind, 'n': n}
    ctx.evaluation(('container', spec.kind, n), nontrivial=True)
    df = c.to_dataframe()
    check_frame(ctx, df, c, list(c.index), span_list, {'status': False, 'iterations': False}, 'VectorContainer.to_dataframe', case)
    # linker: one table per submodel and one for the linker
    A = fsic.build_model(fsic.parse_model('Y = X + 1'))
    B = fsic.build_model(fsic.parse_model('Z = 2 * W[-1]'))

    class Lk(fsic.BaseLinker):
        ENDOGENOUS = ['L']
        NAMES = ENDOGENOUS
    subs = {'a': A(spec.make()), ('b', 1): B(spec.make()), 3: A(spec.make())}
    for k, sm in subs.items():
        decorate(sm, n, rng)
    lk = Lk(subs, name='LINK')
    lk.L = np.arange(n) + 0.5
    for st, it, internal in itertools.product([True, False], repeat=3):
        flags = dict(status=st, iterations=it, include_internal=internal)
        case = {'kind': 'linker', 'span_kind': spec.kind, 'n': n, 'flags': flags}
        ctx.evaluation(('linker', spec.kind, n, st, it, internal), nontrivial=True, sample=case)
        for what, f in (('to_dataframes', lambda: lk.to_dataframes(**flags)), ('linker_to_dataframes', lambda: tools.linker_to_dataframes(lk, **flags))):
            try:
                tables = f()
            except Exception as e:
                ctx.violation('export-raises', f'{what}({flags}) raised {type(e).__name__}: {e}', case)
                return
            if list(tables.keys()) != ['LINK'] + list(subs.keys()):
                ctx.violation('linker-export-tables', f'{what}: tables {list(tables.keys())}, expected {["LINK"] + list(subs.keys())}', case)
                return
            if not check_frame(ctx, tables['LINK'], lk, [x for x in lk.names if internal or not x.startswith('_')], span_list, flags, what + '[linker]', case):
                return
            for k, sm in subs.items():
                if not check_frame(ctx, tables[k], sm, [x for x in sm.names if internal or not x.startswith('_')], span_list, flags, f'{what}[{k!r}]', case):
                    return
        df = lk.to_dataframe(**flags)
        if not check_frame(ctx, df, lk, [x for x in lk.names if internal or not x.startswith('_')], span_list, flags, 'linker.to_dataframe', case):
            return
        # objects with nothing to put into data columns - a linker without variables of its own, a model whose variables are all
        # internal (and not asked for): still one row per period, indexed by the span
        bare = fsic.BaseLinker({'a': A(spec.make())}, name='BARE')
        hidden = fsic.build_model([])(spec.make())
        hidden.add_variable('_only', np.arange(n) * 1.0)
        for what, obj, f in (('bare linker to_dataframe', bare, lambda: bare.to_dataframe(**flags)), ('bare linker to_dataframes[linker]', bare, lambda: bare.to_dataframes(**flags)['BARE']),
                             ('internal-only model to_dataframe', hidden, lambda: hidden.to_dataframe(**flags)), ('internal-only model_to_dataframe', hidden, lambda: tools.model_to_dataframe(hidden, **flags))):
            try:
                t_ = f()
            except Exception as e:
                ctx.violation('export-raises', f'{what}({flags}) raised {type(e).__name__}: {e}', case)
                return
            if not check_frame(ctx, t_, obj, [x for x in obj.names if internal or not x.startswith('_')], span_list, flags, what, case):
                return


def symbol_round_trip(ctx, script):
    import fsic
    from fsic import tools
    try:
        symbols = fsic.parse_model(script)
    except parser_errors():
        return
    case = {'script': script, 'op': 'symbols'}
    ctx.evaluation(('symbols', script), nontrivial=len(symbols) > 0, sample=case)
    try:
        symbols_image = list(symbols)
        table = tools.symbols_to_dataframe(symbols)
        table_image = table.copy(deep=True)
        back = tools.dataframe_to_symbols(table)
        if list(symbols) != symbols_image or not table.equals(table_image):
            ctx.violation('argument-mutated', f'{script!r}: symbols_to_dataframe / dataframe_to_symbols changed the object they were given', {'script': script})
            return
    except Exception as e:
        if len(symbols) == 0:
            ctx.count('empty_symbol_list_round_trip_raises')
            return
        ctx.violation('symbol-round-trip-raises', f'round trip raised {type(e).__name__}: {e}', case)
        return
    ctx.count('symbol_round_trips')
    for s in symbols:
        ctx.seen('symbol_types', s.type.name)
    if back != symbols:
        bad = [(a, b) for a, b in zip(symbols, back) if a != b][:2]
        ctx.violation('symbol-round-trip', f'round trip changed the symbols: {bad} (lengths {len(symbols)}/{len(back)})', case)
    elif not all(type(b.lags) is type(a.lags) and type(b.name) is type(a.name) and type(b.type) is type(a.type) for a, b in zip(symbols, back)):
        ctx.violation('symbol-round-trip', f'round trip changed field types: {[(type(b.lags).__name__, type(b.name).__name__) for b in back][:4]}', case)


def run_shard(ctx):
    rng = ctx.rng('c19')
    rp = gen.RandomPrograms(rng, max_depth=3, max_eqs=4, max_names=6)
    specs = []
    for n in ctx.pick([1, 2, 3, 5], [1, 2, 3, 4, 5, 6]):
        specs.extend(spans.catalogue(n))
    idx = 0
    for spec in specs:
        idx += 1
        if not ctx.mine(idx):
            continue
        ctx.seen('span_kinds', spec.kind)
        for rep in range(ctx.pick(4, 12)):
            prog = rp.program()
            if gen.classify(prog).reject or 'named' in gen.classify(prog).features:
                continue
            script = gen.render_program(prog)
            one_model(ctx, script, spec, rng, solved=rep % 2 == 0)
        containers_and_linkers(ctx, spec, rng)
    # symbol tables
    rp2 = gen.RandomPrograms(rng, max_depth=4, max_eqs=6, max_names=10, big_offsets=True)
    for i in range(ctx.pick(150, 3000)):
        prog = rp2.program()
        lay = gen.Layout(rng, noise=0.2, breaks=0.2, comments=0.2)
        symbol_round_trip(ctx, gen.render_program(prog, lay))
    for script in ['', '# nothing', '`x = 1`', '```\nself.Y[t] = 1\n```', 'Y = X', "Y = sum(C['2000']) / 4", 'Y = (X if Z > 0 else -X)',
                   # names and keywords that read like the markers of a missing table cell
                   'Y = C + G if G > 0 else None', 'nan = X + 1', 'Y = nan + NaN * None_ + inf', 'NaN = nan[-1]\nnull = NA + NaT', 'Y = True if X else False']:
        symbol_round_trip(ctx, script)


def replay(ctx, case):
    if case.get('op') == 'symbols':
        symbol_round_trip(ctx, case['script'])
        return
    if 'script' not in case:
        ctx.inconclusive_because('container/linker cases: re-run the shard with the same VERIF_SEED')
        return
    for spec in spans.catalogue(case['n']):
        if spec.kind == case['span_kind']:
            one_model(ctx, case['script'], spec, ctx.rng('c19'), case.get('solved', False))
