"""Run one shard of one property's workload in a private process.

usage: python -m fsicverif.worker <PROP> <tier> <seed> <shard> <nshards> <outprefix> [replayfile]
Writes <outprefix>.json (counters, samples, violations) and <outprefix>.npy (64-bit
hashes of the distinct non-trivial cases explored)."""
import faulthandler
import importlib
import json
import os
import sys
import traceback

import numpy as np

from . import common


class LineCoverage:
    """Anchor-line coverage with sys.monitoring: each line reports once, then is
    disabled, so the cost is negligible."""

    def __init__(self, anchors):
        self.anchors = anchors  # [(relative file, first line, last line)]
        self.hit = set()
        self.files = {}
        for rel, a, b in anchors:
            self.files.setdefault(os.path.realpath(os.path.join(common.REPO, rel)), []).append((rel, a, b))
        self.active = False

    def start(self):
        if not self.anchors or not hasattr(sys, 'monitoring'):
            return
        mon = sys.monitoring
        try:
            mon.use_tool_id(mon.COVERAGE_ID, 'fsicverif-anchors')
        except ValueError:
            return
        files = self.files
        hit = self.hit
        cache = {}

        def on_line(code, line):
            fn = cache.get(code.co_filename)
            if fn is None:
                fn = cache[code.co_filename] = os.path.realpath(code.co_filename)
            rngs = files.get(fn)
            if rngs is not None:
                for rel, a, b in rngs:
                    if a <= line <= b:
                        hit.add((rel, line))
                        break
            return mon.DISABLE

        mon.register_callback(mon.COVERAGE_ID, mon.events.LINE, on_line)
        mon.set_events(mon.COVERAGE_ID, mon.events.LINE)
        self.active = True

    def stop(self):
        if self.active:
            mon = sys.monitoring
            mon.set_events(mon.COVERAGE_ID, 0)
            mon.register_callback(mon.COVERAGE_ID, mon.events.LINE, None)
            mon.free_tool_id(mon.COVERAGE_ID)
            self.active = False

    def report(self):
        return sorted([rel, line] for rel, line in self.hit)


def executable_lines(path, a, b):
    """Line numbers in [a, b] that carry code (per the compiler's line table)."""
    try:
        src = open(path).read()
        top = compile(src, path, 'exec')
    except Exception:
        return set()
    out = set()
    stack = [top]
    while stack:
        co = stack.pop()
        for _, _, ln in co.co_lines():
            if ln is not None and a <= ln <= b:
                out.add(ln)
        for c in co.co_consts:
            if hasattr(c, 'co_lines'):
                stack.append(c)
    return out


def main(argv):
    prop, tier, seed, shard, nshards, outprefix = argv[:6]
    replayfile = argv[6] if len(argv) > 6 else None
    seed, shard, nshards = int(seed), int(shard), int(nshards)
    faulthandler.enable()
    common.use_repo()
    mod = importlib.import_module('fsicverif.' + prop.lower())
    ctx = common.Ctx(prop, tier, seed, shard, nshards, replaying=replayfile is not None)
    cov = LineCoverage(common.resolve_anchors(getattr(mod, 'ANCHORS', [])))
    cov.start()
    crashed = None

    def process_state():
        # process-wide settings that decide how later numerical code behaves; the harness only ever changes them inside
        # context managers, so whatever differs at the end was left behind by the code under test
        import sys as _sys
        return {'np.geterr()': dict(np.geterr()), 'np.geterrcall()': repr(np.geterrcall()), 'np.get_printoptions()': {k: repr(v) for k, v in np.get_printoptions().items()},
                'sys.getrecursionlimit()': _sys.getrecursionlimit()}
    state0 = process_state()
    import warnings as _warnings
    filters0 = [(f[0], repr(f[1]), f[2].__name__, repr(f[3]), f[4]) for f in _warnings.filters]
    try:
        if replayfile:
            case = json.load(open(replayfile))
            mod.replay(ctx, case.get('case', case))
        else:
            mod.run_shard(ctx)
    except BaseException as e:
        text = ''.join(traceback.format_exception(type(e), e, e.__traceback__))[-4000:]
        tb = e.__traceback__
        root = os.path.realpath(os.path.join(common.REPO, 'fsic')) + os.sep
        innermost = ''
        while tb is not None:
            fn = os.path.realpath(tb.tb_frame.f_code.co_filename)
            if fn.startswith(root):
                innermost = fn          # deepest frame of the code under test the exception passed through
                lineno = tb.tb_lineno
            tb = tb.tb_next
        if innermost and isinstance(e, Exception):
            # the exception was raised *inside the code under test* on an input for which the unchanged tree raises nothing
            # (every check runs clean there): that is an observation about the code, reported with the case being explored
            ctx.violation('exception-from-code-under-test', f'{type(e).__name__}: {e} (propagated out of {innermost}:{lineno}) while exploring the case; traceback tail: {text[-1200:]}',
                          {'last_case': common.jsonable(ctx.last_case)})
            ctx.inconclusive_because('shard stopped early after an exception from the code under test')
        else:
            # a crash of the harness itself is never a verdict
            crashed = text
    finally:
        cov.stop()
    state1 = process_state()
    filters1 = [(f[0], repr(f[1]), f[2].__name__, repr(f[3]), f[4]) for f in _warnings.filters]
    if filters1 != filters0 and crashed is None:
        # the warnings filters: the harness changes them inside catch_warnings() only.  Reported: a blanket filter (the
        # simplefilter() form: no message, no module) that was not there before, or a filter that has gone; filters with a message /
        # module pattern are what lazily imported third-party modules install for themselves and are left alone
        added = [f for f in filters1 if f not in filters0 and f[1] == 'None' and f[3] == 'None']
        removed = [f for f in filters0 if f not in filters1]
        if os.environ.get('VERIF_FILTER_PROBE'):
            print('FILTER-PROBE', [f for f in filters1 if f not in filters0], removed, file=sys.stderr)
        if added or removed:
            ctx.violation('process-wide-state-changed', f'after the workload, the process-wide warnings filters differ from what they were before it: added {added[:3]}, removed {removed[:3]} - the next call in this process sees other warnings', {'changed': {'warnings.filters': [repr(added[:3]), repr(removed[:3])]}})
    if state1 != state0 and crashed is None:
        changed = {k: (state0[k], state1[k]) for k in state0 if state0[k] != state1[k]}
        ctx.violation('process-wide-state-changed', f'after the workload, process-wide settings differ from what they were before it: {changed} - the next call in this process behaves differently', {'changed': {k: [repr(a), repr(b)] for k, (a, b) in changed.items()}})
    res = ctx.result()
    res['anchor_lines_hit'] = cov.report()
    res['crashed'] = crashed
    np.save(outprefix + '.npy', np.fromiter(ctx.hashes, dtype=np.uint64, count=len(ctx.hashes)))
    with open(outprefix + '.json', 'w') as f:
        json.dump(res, f)
    return 0


if __name__ == '__main__':
    sys.exit(main(sys.argv[1:]))
