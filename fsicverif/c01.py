"""C01 - the generated model evaluates exactly the equations written in the script.

Monitor: every array read/write of the generated `_evaluate` is recorded through
recording ndarrays installed in the instance and compared, statement by statement, with
the trace and the values of a reference evaluator that interprets the script's AST
directly (Gauss-Seidel order, reads at exactly t+k, one write per statement, nothing
else written).  The normalised equation text of every symbol is executed against
recording proxies and must produce the same reads, write and value."""
import ast
import re

import numpy as np

from . import gen, rec, ref

PROPERTY = 'C01'
LEVEL = 'exploration'
RULE = ('programs = exhaustive small right-hand-side shapes (depth <= 2, <= 3 leaves, all operators, term kinds, offsets '
        '-2..2) + seeded-random programs of the C01 grammar (depth <= 5, <= 6 equations, <= 10 names, layout noise); each '
        'accepted program is evaluated at every feasible position (positive and negative spelling) on several data '
        'vectors under recording arrays. non-trivial = distinct script text whose evaluation recorded at least one read')
ASSUMPTIONS = ['the reference evaluator renders the same AST to Python source with R()/W() calls; operator precedence is '
               "Python's own in both renderings",
               'structural (ast.dump) equality of Symbol.code with the reference spelling is reported, never used as a verdict',
               'chained comparisons (a < b > c) are not generated: the documented syntax makes <b> an error term',
               'read order inside one statement is not asserted (only the multiset of cells read before the write)']
ANCHORS = [('fsic/parser.py', 'term_re'), ('fsic/parser.py', 'parse_terms'), ('fsic/parser.py', 'Term.__str__'),
           ('fsic/parser.py', 'Term.code'), ('fsic/parser.py', 'parse_equation'), ('fsic/parser.py', 'parse_equation_terms'),
           ('fsic/parser.py', 'replacement_function_names'), ('fsic/parser.py', 'build_model_definition'),
           ('fsic/parser.py', 'build_model')]
REQUIRED_COUNTERS = {'reads_checked': 500, 'writes_checked': 200, 'passes_compared': 200, 'equation_texts_executed': 100}
EXHAUSTIVE = {'quick': False, 'thorough': False}
LEVEL_TEXT = ('Recorded-access-trace monitor with a reference evaluator: every index the generated code reads or writes is '
              'observed and compared with an AST interpreter, over tens of thousands of generated programs x positions x data. '
              'Exploration: held on the programs generated (exhaustive small shapes, random beyond).')
LEVEL_NOTE = ('Trusted: CPython/NumPy arithmetic (both sides run the same operations), the AST renderer in fsicverif/gen.py. '
              'Bounds and observed event counts are in the evidence file.')
TECHNIQUE = 'recording-ndarray access log + reference AST evaluator (runtime differential monitor)'

MIXED_SPAN = ['p1', 'p2', 2000, 2001, 'q1', 'q2', 'q3', 'q4', 'q5', 'q6', 'q7', 'q8', 'q9', 'r0', 'r1', 'r2', 'r3', 'r4',
              'r5', 'r6', 'r7', 'r8', 'r9', 's0', 's1', 's2', 's3', 's4', 's5', 's6', 's7', 's8', 's9', 'u0', 'u1', 'u2']


def nshards(tier):
    return 16


def parser_errors():
    from fsic.exceptions import ParserError, SymbolError
    return (ParserError, SymbolError, IndentationError)


def structural_equal(code, refcode):
    try:
        return ast.dump(ast.parse(code)) == ast.dump(ast.parse(refcode))
    except SyntaxError:
        return False


def expected_code(prog):
    out = {}
    for s in prog.stmts:
        if isinstance(s, gen.Eq):
            out[s.lhs.name] = gen.render_eq(s, 'code')
    return out


def check_program(ctx, prog, script, rng, n_data=2, case_extra=None):
    """Parse, build and monitor one program.  Returns a short outcome tag."""
    import fsic
    case = {'script': script, 'program': gen.to_json(prog)}
    if case_extra:
        case.update(case_extra)
    ex = gen.classify(prog)
    try:
        symbols = fsic.parse_model(script)
    except parser_errors() as e:
        if ex.reject == type(e).__name__:
            ctx.count('rejected_as_expected')
            return 'rejected'
        if ex.reject is not None:
            ctx.count('rejected_other_class')
            return 'rejected'
        ctx.violation('unexpected-reject', f'script inside the documented syntax rejected with {type(e).__name__}: {str(e)[:300]}', case)
        return 'unexpected-reject'
    except Exception as e:
        ctx.violation('parse-foreign-exception', f'parse_model raised {type(e).__name__}: {str(e)[:300]}', case)
        return 'foreign'
    if ex.reject is not None:
        # C03 decides must-reject programs; here we only need accepted programs
        ctx.count('accepted_although_reject_expected')
        # ... but whatever is accepted must still carry every equation that was written
        written = {e.lhs.name for st in prog.stmts if isinstance(st, gen.Eq) for e in [st]}
        carried = {x.name for x in symbols if x.type.name == 'ENDOGENOUS' and x.code}
        if written - carried:
            ctx.violation('equation-dropped', f'the script was accepted, but the equation(s) for {sorted(written - carried)} are in no symbol: the built model would never evaluate them', case)
        return 'accepted-unexpectedly'
    try:
        typed = rng.random() < 0.6      # both class templates (with / without type hints) are the same model
        Model = fsic.build_model(symbols, with_type_hints=typed)
        ctx.seen('templates', 'typed' if typed else 'untyped')
    except Exception as e:
        ctx.violation('build-failed', f'build_model raised {type(e).__name__}: {str(e)[:300]}', case)
        return 'build-failed'

    # ---- structural fast path (reported only) ----------------------------------------
    want_code = expected_code(prog)
    struct_ok = True
    for s in symbols:
        if s.type.name == 'ENDOGENOUS' and s.code is not None:
            if s.name not in want_code or not structural_equal(s.code, want_code[s.name]):
                struct_ok = False
    ctx.count('structurally_equal' if struct_ok else 'structurally_different')

    # ---- dynamic monitor --------------------------------------------------------------
    names = list(Model.NAMES)
    lags, leads = ex.lags, ex.leads
    n = lags + leads + 3
    if 'named' in ex.features:
        span = list(MIXED_SPAN[:max(n, 4)])
        n = len(span)
    else:
        span = list(range(n))
    term_names = []
    for s in prog.stmts:
        for e in ([s] if isinstance(s, gen.Eq) else s.eqs):
            for tm in e.terms():
                if tm.name not in term_names:
                    term_names.append(tm.name)
    missing = [x for x in term_names if x not in names]
    if missing:
        ctx.violation('variable-missing-from-model', f'terms {missing} of the script are not variables of the built model (NAMES={names})', case)
        return 'missing'
    outcome = 'ok'
    for di in range(n_data):
        style = ['generic', 'positive', 'extreme', 'small', 'ints'][di % 5]
        data0 = ref.make_data(names, n, rng, style)
        for p in ref.feasible_positions(n, lags, leads):
            for spelling in ((p, p - n) if di == 0 else (p,)):
                r = one_pass(ctx, Model, prog, span, names, data0, p, spelling, case)
                if r != 'ok':
                    outcome = r
                    break
            if outcome != 'ok':
                break
        if outcome != 'ok':
            break
    # ---- "a feasible period t" as the built model itself defines it (its LAGS / LEADS): at its own first and last
    #      feasible periods every read still lands on exactly t-lag / t+lead inside the span
    if outcome == 'ok' and 'block' not in ex.features and n >= lags + leads + 1 and (Model.LAGS < lags or Model.LEADS < leads):
        own = sorted({Model.LAGS, n - 1 - Model.LEADS} - set(ref.feasible_positions(n, lags, leads)))
        for p in own:
            if not 0 <= p < n:
                continue
            model = Model(list(span) if not isinstance(span, range) else span)
            data = ref.make_data(names, n, rng, 'positive')
            for nm in names:
                model.__dict__['_' + nm][:] = data[nm]
            log = rec.install(model)
            err = None
            with ref.quiet():
                try:
                    model._evaluate(p)
                except Exception as e:
                    err = e
            log.enabled = False
            ctx.count('own_feasible_periods_checked')
            outside = [(nm, int(i)) for k, nm, i in log if k in ('r', 'w') and isinstance(i, (int, np.integer)) and not 0 <= int(i) < n]
            if outside or isinstance(err, IndexError):
                ctx.violation('feasible-period-reads-outside-span', f'the built model has LAGS={Model.LAGS}, LEADS={Model.LEADS}, so period {p} of {n} is feasible by its own account, but one pass there '
                              f'addresses {outside[:4] or err!r}: not the lag/lead written (the script needs lags={lags}, leads={leads})', case)
                outcome = 'fail'
                break
    # ---- normalised equation text ------------------------------------------------------
    if outcome == 'ok':
        check_equation_texts(ctx, prog, symbols, ex, span, names, rng, case)
    # ---- a symbol list re-ordered by the caller: equations run in *that* symbol-list order ------
    carrying = [s for s in symbols if s.code is not None and s.equation is not None]
    if outcome == 'ok' and len(carrying) > 1 and rng.random() < 0.35:
        shuffled = list(symbols)
        rng.shuffle(shuffled)
        if [s for s in shuffled if s.code is not None] != carrying:
            blocks = [st for st in prog.stmts if isinstance(st, gen.Block)]
            by_name = {}
            for e in prog.equations():
                by_name.setdefault(e.lhs.name, e)
            order, bi = [], 0
            verb_syms = [s for s in symbols if s.name is None]
            for s in shuffled:
                if s.code is None or s.equation is None:
                    continue
                if s.name is None:
                    order.extend(blocks[verb_syms.index(s)].eqs if s in verb_syms and verb_syms.index(s) < len(blocks) else [])
                else:
                    order.append(by_name[s.name])
            try:
                Model2 = fsic.build_model(shuffled)
            except Exception as e:
                ctx.violation('build-failed', f'build_model on a re-ordered symbol list raised {type(e).__name__}: {e}', case)
                return 'build-failed'
            ctx.count('reordered_symbol_lists')
            names2 = list(Model2.NAMES)
            data0 = ref.make_data(names2, n, rng, 'positive')
            for p in ref.feasible_positions(n, lags, leads)[:2]:
                r = one_pass(ctx, Model2, prog, span, names2, data0, p, p, dict(case, symbol_order=[s.name for s in shuffled]), order=order)
                if r != 'ok':
                    return r
    return outcome


def one_pass(ctx, Model, prog, span, names, data0, p, t, case, order=None):
    n = len(span)
    model = Model(list(span) if not isinstance(span, range) else span)
    for nm in names:
        model.__dict__['_' + nm][:] = data0[nm]
    log = rec.install(model)
    rdata = {k: v.copy() for k, v in data0.items()}
    refrun = ref.RefRun(prog, rdata, span_labels=list(span), order=order)
    with ref.quiet():
        try:
            want = refrun.evaluate(p)
        except ref.OutOfSpan:
            ctx.count('reference_out_of_span')
            return 'ok'
        except KeyError:
            ctx.count('reference_label_missing')
            return 'ok'
        got_exc = None
        try:
            model._evaluate(t)
        except Exception as e:
            got_exc = e
    log.enabled = False
    ctx.count('passes_compared')
    want_exc = want[-1]['exc'] if want else None
    case = dict(case, position=p, t=t, data={k: v.tolist() for k, v in data0.items()}, span=list(span))
    if got_exc is not None or want_exc is not None:
        if got_exc is None or want_exc is None or not isinstance(got_exc, want_exc):
            mech = 'evaluate-exception'
            if isinstance(got_exc, AttributeError) and '_Model__' in str(got_exc):
                mech = 'underscore-name-mangling'
            ctx.violation(mech, f'_evaluate({t}) raised {got_exc!r}; the reference evaluator {"raised " + want_exc.__name__ if want_exc else "completed"}', case)
            return 'exception-mismatch'
        ctx.count('both_raise_same_exception')
    # segment the recorded log into statements (a write ends a statement)
    stmts = []
    cur = {'reads': [], 'writes': []}
    bad_index = None
    for entry in log:
        kind, name, idx = entry[0], entry[1], entry[2]
        if kind == 'phase':
            continue
        ni = rec.norm_index(idx, n)
        if ni is None:
            bad_index = (kind, name, repr(idx))
            continue
        if kind == 'r':
            cur['reads'].append((name, ni[0]))
        else:
            cur['writes'].append((name, ni[0]))
            stmts.append(cur)
            cur = {'reads': [], 'writes': []}
    if cur['reads'] or cur['writes']:
        stmts.append(cur)
    if bad_index is not None:
        ctx.violation('non-scalar-access', f'generated code accessed {bad_index} (not a single integer position)', case)
        return 'bad-index'
    # compare with the reference trace
    want_stmts = [w for w in want if not (w['exc'] is not None and not w['reads'] and not w['writes'])]
    got_stmts = stmts
    if want_exc is not None:
        # the failing statement may have recorded a prefix of its reads
        want_cmp, got_cmp = want[:-1], got_stmts[:len(want) - 1]
    else:
        want_cmp, got_cmp = want, got_stmts
        if len(got_stmts) != len(want):
            ctx.violation('statement-count', f'pass executed {len(got_stmts)} assignments, the script has {len(want)} statements; recorded={got_stmts} expected={want}', case)
            return 'statement-count'
    for i, (w, g) in enumerate(zip(want_cmp, got_cmp)):
        ctx.count('reads_checked', len(w['reads']))
        ctx.count('writes_checked', len(w['writes']))
        if sorted(w['reads']) != sorted(g['reads']):
            ctx.violation('wrong-cells-read', f'statement {i}: read {sorted(g["reads"])}, the script reads {sorted(w["reads"])} (position {p})', case)
            return 'reads'
        if w['writes'] != g['writes']:
            ctx.violation('wrong-cells-written', f'statement {i}: wrote {g["writes"]}, the script writes {w["writes"]} (position {p})', case)
            return 'writes'
        if w['reads'] != g['reads']:
            ctx.count('read_order_differs')
    # values: every series bit-for-bit
    for nm in names:
        got = rec.plain(model, nm)
        if not ref.same_array(got, rdata[nm]):
            cells = [i for i in range(n) if not (got[i] == rdata[nm][i] or (np.isnan(got[i]) and np.isnan(rdata[nm][i])))]
            ctx.violation('wrong-value', f'after _evaluate({t}) {nm}{cells} = {got[cells].tolist()} but the reference evaluator gives {rdata[nm][cells].tolist()}', case)
            return 'values'
    ctx.count('series_compared', len(names))
    return 'ok'


class _Series:
    """Proxy bound to a name in the environment in which a normalised equation runs."""

    def __init__(self, name, arr, log):
        self.name, self.arr, self.log = name, arr, log

    def __getitem__(self, idx):
        self.log.append(('r', self.name, int(idx)))
        return self.arr[int(idx)]

    def __setitem__(self, idx, value):
        self.log.append(('w', self.name, int(idx)))
        self.arr[int(idx)] = value


def check_equation_texts(ctx, prog, symbols, ex, span, names, rng, case):
    """Execute Symbol.equation ('Y[t] = C[t] + a[t-1]') against proxies and compare with the reference."""
    if 'verbatim' in ex.features or 'block' in ex.features or 'named' in ex.features:
        ctx.count('equation_text_skipped_verbatim_or_named')
        return
    funcs = {f.split('.')[0] for f in ex.functions}
    if set(names) & ({'t', 'np', 'exp', 'log', 'max', 'min', 'abs', 'float'} | funcs):
        ctx.count('equation_text_skipped_name_clash')
        return
    n = len(span)
    lags, leads = ex.lags, ex.leads
    data0 = ref.make_data(names, n, rng, 'positive')
    eqs = [s for s in prog.stmts if isinstance(s, gen.Eq)]
    by_name = {s.name: s for s in symbols if s.type.name == 'ENDOGENOUS'}
    for p in ref.feasible_positions(n, lags, leads)[:2]:
        for e in eqs:
            sym = by_name.get(e.lhs.name)
            if sym is None or sym.equation is None:
                ctx.violation('equation-text-missing', f'endogenous {e.lhs.name} carries no normalised equation', case)
                return
            sub = gen.Program([e])
            rdata = {k: v.copy() for k, v in data0.items()}
            with ref.quiet():
                try:
                    want = ref.RefRun(sub, rdata).evaluate(p)
                except ref.OutOfSpan:
                    continue
                edata = {k: v.copy() for k, v in data0.items()}
                log = []
                env = {nm: _Series(nm, edata[nm], log) for nm in names}
                env.update({'t': p, 'exp': np.exp, 'log': np.log, 'max': max, 'min': min, 'abs': abs, 'float': float, 'np': np})
                env['__builtins__'] = {}
                got_exc = None
                try:
                    exec(sym.equation, env)
                except Exception as x:
                    got_exc = x
            ctx.count('equation_texts_executed')
            c2 = dict(case, equation=sym.equation, position=p)
            if (got_exc is None) != (want[-1]['exc'] is None):
                ctx.violation('equation-text-differs', f'normalised equation {sym.equation!r} raised {got_exc!r} but the script expression {"raises " + want[-1]["exc"].__name__ if want[-1]["exc"] else "evaluates"}', c2)
                return
            if got_exc is not None:
                continue
            reads = sorted((nm, q) for k, nm, q in log if k == 'r')
            writes = [(nm, q) for k, nm, q in log if k == 'w']
            if reads != sorted(want[0]['reads']) or writes != want[0]['writes']:
                ctx.violation('equation-text-differs', f'normalised equation {sym.equation!r} reads {reads} writes {writes}; the script reads {sorted(want[0]["reads"])} writes {want[0]["writes"]}', c2)
                return
            for nm in names:
                if not ref.same_array(edata[nm], rdata[nm]):
                    ctx.violation('equation-text-differs', f'normalised equation {sym.equation!r} gives {nm}={edata[nm].tolist()}, the script gives {rdata[nm].tolist()}', c2)
                    return


def run_shard(ctx):
    rng = ctx.rng('programs')
    # 1. exhaustive small shapes
    level = 1 if ctx.quick else 2
    stride = 1
    i = 0
    for tag, rhs in gen.small_shapes(level):
        i += 1
        if (i + ctx.seed) % stride != 0 or not ctx.mine(i // stride):
            continue
        prog = gen.Program([gen.Eq(gen.Var('Y', 'var', 0), rhs)])
        lay = gen.Layout(rng, noise=0.25) if i % 3 == 0 else gen.Layout(None)
        script = gen.render_program(prog, lay)
        ctx.evaluation(script, nontrivial=True, sample={'script': script, 'kind': 'small:' + tag})
        ctx.seen('small_shape_tags', tag)
        out = check_program(ctx, prog, script, rng, n_data=3 if i % 4 == 0 else 2)
        ctx.seen('outcomes', out)
    # 2. random programs
    count = ctx.pick(300, 8000)
    rp = gen.RandomPrograms(rng, max_depth=4, max_eqs=6, max_names=10, big_offsets=True, funcvar_rate=0.06,
                            underscore_rate=0.01, lhs_offsets=(0, 0, 0, 0, 0, 0, 0, -1, 1))
    for k in range(count):
        prog = rp.program()
        lay = gen.Layout(rng, noise=rng.choice([0.0, 0.2, 0.5]), breaks=rng.choice([0.0, 0.0, 0.3]), comments=rng.choice([0.0, 0.3]),
                         tight=rng.random() < 0.2, pre_p=rng.choice([0.0, 0.0, 0.5]), inner_p=rng.choice([0.0, 0.3, 0.8]))
        script = gen.render_program(prog, lay)
        ex = gen.classify(prog)
        ctx.evaluation(script, nontrivial=True, sample={'script': script, 'kind': 'random'})
        for f in ex.features:
            ctx.seen('features', f)
        out = check_program(ctx, prog, script, rng, n_data=3)
        ctx.seen('outcomes', out)


    # 3. big programs (tens of equations and names)
    big = gen.big_programs(rng, big_offsets=True, lhs_offsets=(0, 0, 0, 0, 0, 0, 0, -1, 1))
    for k in range(ctx.pick(2, 30)):
        prog = big.program()
        script = gen.render_program(prog, gen.Layout(rng, noise=rng.choice([0.0, 0.2])))
        ctx.evaluation(script, nontrivial=True, sample={'script': script[:300], 'kind': 'big'})
        ctx.count('big_programs')
        out = check_program(ctx, prog, script, rng, n_data=2)
        ctx.seen('outcomes', out)


def replay(ctx, case):
    prog = gen.from_json(case['program'])
    ctx.evaluation(case['script'], nontrivial=True)
    out = check_program(ctx, prog, case['script'], ctx.rng('programs'), n_data=3)
    ctx.seen('outcomes', out)
