"""Full observable-state snapshots of containers / models / linkers and cell-level diffs."""
import copy

import numpy as np

CLASS_LISTS = ('NAMES', 'ENDOGENOUS', 'EXOGENOUS', 'PARAMETERS', 'ERRORS', 'CHECK', 'ALIASES', 'PREFERRED_NAMES', 'TRACE_VARIABLES')


def freeze(v, depth=0):
    """A comparable, independent rendering of a value."""
    if depth > 6:
        return repr(v)
    if isinstance(v, np.ndarray):
        if v.dtype == object:
            return ('objarray', tuple(freeze(x, depth + 1) for x in v.tolist()))
        return ('array', str(v.dtype), v.shape, tuple('nan' if (isinstance(x, float) and x != x) else x for x in v.ravel().tolist()))
    if isinstance(v, (list, tuple)):
        return (type(v).__name__, tuple(freeze(x, depth + 1) for x in v))
    if isinstance(v, dict):
        return ('dict', tuple((repr(k), freeze(x, depth + 1)) for k, x in v.items()))
    if isinstance(v, (set, frozenset)):
        return ('set', tuple(sorted(repr(x) for x in v)))
    if hasattr(v, '__dict__') and 'index' in getattr(v, '__dict__', {}) and 'span' in v.__dict__:
        return ('container', snapshot(v, depth + 1))
    if type(v).__name__ == 'Trace':
        return ('Trace', freeze(list(v.names), depth + 1), freeze(list(v.index), depth + 1), freeze(np.asarray(v.values), depth + 1))
    if isinstance(v, float) and v != v:
        return 'nan'
    try:
        import pandas as pd
        if isinstance(v, pd.Index):
            return ('pdindex', type(v).__name__, tuple(repr(x) for x in v))
    except Exception:
        pass
    if isinstance(v, range):
        return ('range', v.start, v.stop, v.step)
    if type(v).__name__ == 'Box' and hasattr(v, '__dict__'):
        return ('object', type(v).__name__, freeze(dict(v.__dict__), depth + 1))      # the harness's own plain attribute object
    return repr(v)


def snapshot(obj, depth=0):
    d = obj.__dict__
    out = {'class': type(obj).__qualname__}
    for k, v in d.items():
        if k.startswith('v_'):
            continue
        out[k] = freeze(v, depth + 1)
    return out


def class_snapshot(cls):
    out = {}
    for k in CLASS_LISTS:
        for c in cls.__mro__:
            if k in c.__dict__ and not isinstance(c.__dict__[k], property):
                out[f'{c.__name__}.{k}'] = freeze(c.__dict__[k])
    # ... and every other class-level list / dict / set along the way (a registry or a table of defaults kept on the class)
    for c in cls.__mro__:
        if c is object:
            continue
        for k, v in c.__dict__.items():
            if isinstance(v, (list, dict, set)) and f'{c.__name__}.{k}' not in out and not k.startswith('__'):
                out[f'{c.__name__}.{k}'] = freeze(v)
    return out


def diff(a, b, path=''):
    """Paths at which two snapshots differ."""
    if type(a) is not type(b):
        return [path or '.']
    if isinstance(a, dict):
        out = []
        for k in set(a) | set(b):
            if k not in a or k not in b:
                out.append(f'{path}/{k}')
            else:
                out.extend(diff(a[k], b[k], f'{path}/{k}'))
        return out
    if isinstance(a, tuple):
        if len(a) != len(b):
            return [path or '.']
        if a and a[0] == 'container':
            return diff(a[1], b[1], path)
        out = []
        for i, (x, y) in enumerate(zip(a, b)):
            out.extend(diff(x, y, f'{path}[{i}]'))
        return out[:6]
    return [] if a == b else [path or '.']


def mutable_ids(obj, seen=None, path='', depth=0):
    """{id: path} of every mutable object reachable from a container (arrays, lists, dicts, traces, submodels)."""
    seen = {} if seen is None else seen
    if depth > 6:
        return seen

    def visit(v, p, depth):
        if isinstance(v, np.ndarray):
            seen.setdefault(id(v), p)
            if v.dtype == object:
                for i, x in enumerate(v.tolist()):
                    visit(x, f'{p}[{i}]', depth + 1)
        elif isinstance(v, list):
            seen.setdefault(id(v), p)
            for i, x in enumerate(v):
                visit(x, f'{p}[{i}]', depth + 1)
        elif isinstance(v, dict):
            seen.setdefault(id(v), p)
            for k, x in v.items():
                visit(x, f'{p}[{k!r}]', depth + 1)
        elif isinstance(v, tuple):
            # immutable itself (and hashable if its items are), but what it holds may not be
            for i, x in enumerate(v):
                visit(x, f'{p}[{i}]', depth + 1)
        elif type(v).__name__ == 'Box' and hasattr(v, '__dict__'):
            seen.setdefault(id(v), p)
            for k, x in v.__dict__.items():
                visit(x, f'{p}.{k}', depth + 1)
        elif type(v).__name__ == 'Trace':
            seen.setdefault(id(v), p)
            visit(v.index, p + '.index', depth + 1)
            visit(v.values, p + '.values', depth + 1)
            visit(v.names, p + '.names', depth + 1)
        elif hasattr(v, '__dict__') and 'index' in getattr(v, '__dict__', {}) and 'span' in v.__dict__:
            seen.setdefault(id(v), p)
            if depth < 6:
                for k, x in v.__dict__.items():
                    visit(x, f'{p}.{k}', depth + 1)

    for k, v in obj.__dict__.items():
        visit(v, f'{path}.{k}', depth)
    return seen


def arrays_of(obj, prefix=''):
    out = {}
    for k, v in obj.__dict__.items():
        if isinstance(v, np.ndarray):
            out[prefix + k] = v
    for key, sm in (obj.__dict__.get('submodels') or {}).items():
        out.update(arrays_of(sm, f'{prefix}submodels[{key!r}].'))
    return out
