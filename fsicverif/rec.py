"""Recording ndarray subclass: every element read/write made through it is appended to
a shared access log, so the harness sees each array index the generated code touches."""
import numpy as np


class AccessLog(list):
    """List of ('r'|'w', name, raw_index) and ('phase', label, t, iteration) entries."""
    enabled = True

    def mark(self, label, t=None, iteration=None):
        self.append(('phase', label, t, iteration))


class RecArray(np.ndarray):
    _name = None
    _log = None

    def __array_finalize__(self, obj):
        if obj is not None:
            self._name = getattr(obj, '_name', None)
            self._log = getattr(obj, '_log', None)

    def __getitem__(self, idx):
        log = self._log
        if log is not None and log.enabled:
            log.append(('r', self._name, idx))
        return super().__getitem__(idx)

    def __setitem__(self, idx, value):
        log = self._log
        if log is not None and log.enabled:
            log.append(('w', self._name, idx))
        super().__setitem__(idx, value)


def install(model, names=None, log=None):
    """Replace the model's series with recording views sharing one log."""
    log = AccessLog() if log is None else log
    d = model.__dict__
    for name in (names if names is not None else list(d['index'])):
        base = np.asarray(d['_' + name])
        arr = base.view(RecArray)
        arr._name = name
        arr._log = log
        d['_' + name] = arr
    return log


def plain(model, name):
    """The series as a plain ndarray (no logging)."""
    return np.asarray(model.__dict__['_' + name]).view(np.ndarray)


def norm_index(idx, n):
    """Normalise a raw integer index; returns (position, wrapped?) or None for non-integers."""
    if isinstance(idx, (int, np.integer)) and not isinstance(idx, (bool, np.bool_)):
        i = int(idx)
        return (i + n, True) if i < 0 else (i, False)
    return None
