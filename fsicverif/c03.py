"""C03 - variable classification, ordering and lag/lead lengths match the script.

Monitor: reference classification computed from the generated AST (never from the
script text) compared with the Symbol list and the built class; the default solution
range is decided dynamically: the periods solve()/iter_periods() visit are evaluated
under recording arrays (every read in span, no wrap) and the periods just outside are
shown to need a read outside the span."""
import itertools

import numpy as np

from . import gen, rec, ref
from .c01 import parser_errors

PROPERTY = 'C03'
LEVEL = 'exploration'
RULE = ('random C01-grammar programs with emphasis on multi-equation merges (variable first on a right-hand side then '
        'defined, lead before lag, named-period + integer offsets), deliberate conflicts (var vs param/error, double '
        'definitions identical/different, function/variable collisions) x lags/leads/min_lags/min_leads in {None,0,1,3}; '
        'non-trivial = distinct (script, settings) with at least two distinct names')
ASSUMPTIONS = ['"order of first appearance" is first appearance of the name anywhere in the script, left-hand side before right-hand side within a statement',
               'a name used both as a variable and as a function must be rejected (SymbolError), as the parser already does across equations']
ANCHORS = [('fsic/parser.py', 'parse_equation_terms'), ('fsic/parser.py', 'Symbol.combine'), ('fsic/parser.py', 'parse_model'),
           ('fsic/parser.py', 'build_model_definition'), ('fsic/core/interfaces.py', 'SolverMixin.iter_periods')]
REQUIRED_COUNTERS = {'classifications_compared': 200, 'rejections_checked': 20, 'default_ranges_checked': 100, 'range_reads_checked': 500}
LEVEL_TEXT = ('Reference-classification monitor over generated programs and build settings, plus a dynamic decision of the '
              'default solution range through recorded array accesses. Exploration over programs x configurations.')
LEVEL_NOTE = 'Trusted: the AST-level classifier in fsicverif/gen.py (30 lines). Held on the programs/settings generated.'
TECHNIQUE = 'reference-model monitor on parser output + recorded access log for the solution range'
SETTINGS = [None, 0, 1, 3]


def nshards(tier):
    return 16


def check_symbols(ctx, prog, ex, symbols, case):
    kinds = {'ENDOGENOUS': ex.endogenous, 'EXOGENOUS': ex.exogenous, 'PARAMETER': ex.parameters, 'ERROR': ex.errors}
    got = {k: [s.name for s in symbols if s.type.name == k] for k in kinds}
    ctx.count('classifications_compared')
    for k in kinds:
        if got[k] != kinds[k]:
            ctx.violation('symbol-classification', f'{k}: parser gives {got[k]}, the script has {kinds[k]}', case)
            return False
    # order of first appearance across all variable-like symbols
    order = [s.name for s in symbols if s.type.name in kinds]
    first = []
    for s in prog.stmts:
        if isinstance(s, gen.Eq):
            for tm in s.terms():
                if tm.name not in first:
                    first.append(tm.name)
    if order != first:
        ctx.violation('symbol-order', f'symbols appear as {order}, first appearance in the script is {first}', case)
        return False
    if len(set(order)) != len(order):
        ctx.violation('symbol-duplicate', f'a name appears twice in the symbol list: {order}', case)
        return False
    # per-symbol lags / leads
    offs = {}
    for s in prog.stmts:
        if isinstance(s, gen.Eq):
            for tm in s.terms():
                if isinstance(tm, gen.Var):
                    offs.setdefault(tm.name, []).append(tm.off)
                else:
                    offs.setdefault(tm.name, [])
    for s in symbols:
        if s.type.name in kinds:
            want = (min(offs[s.name] + [0]), max(offs[s.name] + [0]))
            if (s.lags, s.leads) != want:
                ctx.violation('symbol-lags-leads', f'symbol {s.name}: lags/leads {(s.lags, s.leads)}, offsets written in the script give {want}', case)
                return False
    # every endogenous symbol carries its equation, nothing else does
    for s in symbols:
        if s.type.name == 'ENDOGENOUS' and (s.equation is None or s.code is None):
            ctx.violation('endogenous-without-equation', f'endogenous {s.name} has no equation/code', case)
            return False
        if s.type.name in ('EXOGENOUS', 'PARAMETER', 'ERROR') and (s.equation is not None or s.code is not None):
            ctx.violation('exogenous-with-equation', f'{s.type.name} {s.name} carries an equation', case)
            return False
    return True


def check_build(ctx, prog, ex, symbols, settings, case, rng, dynamic):
    import fsic
    lags, leads, min_lags, min_leads = settings
    kw = {}
    if lags is not None:
        kw['lags'] = lags
    if leads is not None:
        kw['leads'] = leads
    if min_lags is not None:
        kw['min_lags'] = min_lags
    if min_leads is not None:
        kw['min_leads'] = min_leads
    case = dict(case, settings=kw)
    try:
        # both class templates (with / without type hints) declare the same lists and lengths
        Model = fsic.build_model(symbols, with_type_hints=(len(case.get('script', '')) + len(kw)) % 2 == 0, **kw)
    except Exception as e:
        ctx.violation('build-failed', f'build_model(**{kw}) raised {type(e).__name__}: {str(e)[:200]}', case)
        return
    ctx.count('builds_checked')
    want_lags = lags if lags is not None else max(ex.lags, min_lags or 0)
    want_leads = leads if leads is not None else max(ex.leads, min_leads or 0)
    if (Model.LAGS, Model.LEADS) != (want_lags, want_leads):
        ctx.violation('model-lags-leads', f'LAGS/LEADS = {(Model.LAGS, Model.LEADS)}, expected {(want_lags, want_leads)} (script: lags {ex.lags}, leads {ex.leads}; settings {kw})', case)
        return
    parts = (Model.ENDOGENOUS, Model.EXOGENOUS, Model.PARAMETERS, Model.ERRORS)
    if tuple(map(list, parts)) != (ex.endogenous, ex.exogenous, ex.parameters, ex.errors):
        ctx.violation('model-name-lists', f'class lists {parts} differ from the script classification {(ex.endogenous, ex.exogenous, ex.parameters, ex.errors)}', case)
        return
    if list(Model.NAMES) != ex.endogenous + ex.exogenous + ex.parameters + ex.errors or len(set(Model.NAMES)) != len(Model.NAMES):
        ctx.violation('model-names', f'NAMES = {Model.NAMES} is not the partition endogenous+exogenous+parameters+errors', case)
        return
    if list(Model.CHECK) != ex.endogenous:
        ctx.count('check_differs_from_endogenous')
    # ---- default solution range -------------------------------------------------------
    for extra in (1, 3):
        n = want_lags + want_leads + extra
        span = list(gen_span(ex, n))
        n = len(span)
        try:
            model = Model(span)
        except Exception as e:
            ctx.violation('instantiate-failed', f'Model(span) raised {type(e).__name__}: {str(e)[:200]}', case)
            return
        got = [i for i, _ in model.iter_periods()]
        want = list(range(want_lags, n - want_leads))
        ctx.count('default_ranges_checked')
        if got != want:
            ctx.violation('default-range', f'default solution range {got}, expected positions {want} (n={n}, LAGS={want_lags}, LEADS={want_leads})', case)
            return
        if not dynamic or kw:
            continue
        # with default settings the range must be exactly the periods whose reads stay inside the span
        inside = [p for p in range(n) if all(0 <= p + k < n for k in all_offsets(prog))]
        if inside != want:
            ctx.violation('range-not-exact', f'periods whose reads stay inside the span are {inside}, default range is {want}', case)
            return
        names = list(Model.NAMES)
        data = ref.make_data(names, n, rng, 'positive')
        for nm in names:
            model.__dict__['_' + nm][:] = data[nm]
        log = rec.install(model, names)
        with ref.quiet():
            try:
                labels, indexes, solved = model.solve(max_iter=2, failures='ignore', errors='ignore')
            except Exception:
                ctx.count('solve_raised_skipped')
                continue
        log.enabled = False
        if list(indexes) != want or list(labels) != [span[i] for i in want]:
            ctx.violation('solve-range', f'solve() visited {indexes} / {labels}, expected {want}', case)
            return
        cur_t = None
        offs = set(all_offsets(prog))
        for entry in log:
            if entry[0] == 'phase':
                continue
            kind, name, idx = entry
            ni = rec.norm_index(idx, n)
            if ni is None:
                continue
            ctx.count('range_reads_checked')
            if isinstance(idx, (int, np.integer)) and idx < 0:
                ctx.violation('wrapped-read-in-default-range', f'solve() over the default range accessed {name}[{idx}] (wrap-around)', case)
                return


def all_offsets(prog):
    out = [0]
    for s in prog.stmts:
        if isinstance(s, gen.Eq):
            for tm in s.terms():
                if isinstance(tm, gen.Var):
                    out.append(tm.off)
    return out


def gen_span(ex, n):
    if 'named' in ex.features:
        from .c01 import MIXED_SPAN
        base = list(MIXED_SPAN)
        while len(base) < n:
            base.append(f'z{len(base)}')
        return base[:max(n, 4)]
    return range(n)


def one_program(ctx, prog, script, rng, settings_list, dynamic=True):
    import fsic
    ex = gen.classify(prog)
    case = {'script': script, 'program': gen.to_json(prog)}
    try:
        symbols = fsic.parse_model(script)
    except parser_errors() as e:
        ctx.count('rejections_checked')
        if ex.reject is None and 'double-identical' in ex.features and isinstance(e, fsic.exceptions.ParserError) and 'defined twice' in str(e) and script != gen.render_program(prog):
            # the same equation written twice with *different layout*: whether the two spellings count as
            # "different equations" is not fixed by the statement; only identical spellings must be accepted
            ctx.count('duplicate_with_different_layout_unspecified')
        elif ex.reject is None:
            ctx.violation('unexpected-reject', f'accepted-by-grammar script rejected with {type(e).__name__}: {str(e)[:200]}', case)
        elif ex.reject != type(e).__name__:
            ctx.violation('reject-class', f'rejected with {type(e).__name__}, expected {ex.reject} ({ex.reason})', case)
        else:
            ctx.seen('reject_reasons', ex.reason.split(' ', 1)[1] if ex.reason else '')
        return 'rejected'
    except Exception as e:
        ctx.violation('parse-foreign-exception', f'parse_model raised {type(e).__name__}: {str(e)[:200]}', case)
        return 'foreign'
    if ex.reject is not None:
        ctx.count('rejections_checked')
        ctx.violation('must-reject-accepted', f'script must be rejected with {ex.reject} ({ex.reason}) but was accepted', case)
        return 'accepted'
    if not check_symbols(ctx, prog, ex, symbols, case):
        return 'symbols'
    if not check_result_independence(ctx, script, symbols, case):
        return 'symbols'
    for st in settings_list:
        check_build(ctx, prog, ex, symbols, st, case, rng, dynamic)
    return 'ok'


def check_result_independence(ctx, script, symbols, case):
    """What the parser returns belongs to the caller: extending, clearing or re-ordering a returned list (symbol lists are
    routinely concatenated with `+=`) must not change what the same text parses to afterwards."""
    import fsic
    from fsic import parser as P
    try:
        for stmt in P.split_equations(script):
            try:
                got = P.parse_equation(stmt)
                terms = P.parse_terms(stmt)
            except parser_errors():
                continue        # verbatim blocks are not for parse_equation
            if isinstance(got, list):
                got += [P.Symbol(name='POISON', type=P.Type.ENDOGENOUS, lags=-9, leads=9, equation='POISON[t] = 1', code='self._POISON[t] = 1')]
                got.reverse()
            if isinstance(terms, list):
                terms.clear()
        again = fsic.parse_model(script)
        if isinstance(again, list):
            again.clear()
        third = fsic.parse_model(script)
    except Exception as e:  # noqa: BLE001
        ctx.violation('result-not-independent', f'parsing the same text again after editing earlier results raised {type(e).__name__}: {str(e)[:200]}', case)
        return False
    ctx.count('reparse_after_result_edits')
    if list(third) != list(symbols):
        extra = [s.name for s in third if s not in symbols]
        missing = [s.name for s in symbols if s not in third]
        ctx.violation('result-not-independent', f'after the caller edited lists returned by parse_equation / parse_terms / parse_model, the same script parses differently: '
                                                f'extra {extra[:5]}, missing {missing[:5]}', case)
        return False
    return True


def merge_catalogue():
    """Hand-picked multi-equation merge shapes named in the property text."""
    V, N, B, E, P = gen.Var, gen.Num, gen.Bin, gen.Eq, gen.Program
    yield 'rhs-then-lhs', P([E(V('A'), B('+', V('B'), N('1'))), E(V('B'), V('C', off=-1))])
    yield 'lead-then-lag', P([E(V('A'), B('+', V('X', off=2), V('X', off=-3)))])
    yield 'lag-then-lead-other-eq', P([E(V('A'), V('X', off=-1)), E(V('B'), V('X', off=1, plus=True))])
    yield 'named-and-int', P([E(V('A'), B('+', gen.Named('X', 'var', 'p1', "'"), V('X', off=-2)))])
    yield 'int-and-named', P([E(V('A'), B('+', V('X', off=2), gen.Named('X', 'var', 'p1', '"')))])
    yield 'named-only', P([E(V('A'), gen.Named('X', 'var', '2000', '`'))])
    yield 'param-lag', P([E(V('A'), B('*', V('a', 'param', -2), V('X')))])
    yield 'error-lead', P([E(V('A'), B('+', V('e', 'error', 1), V('X')))])
    yield 'lhs-lag', P([E(V('A', off=-1), V('X'))])
    yield 'lhs-lead', P([E(V('A', off=1), V('X', off=-1))])
    yield 'endo-used-with-lag-before-def', P([E(V('A'), V('B', off=-2)), E(V('B'), V('A', off=1))])
    yield 'three-way-order', P([E(V('A'), B('+', V('C'), V('B'))), E(V('C'), N('1')), E(V('B'), N('2'))])
    yield 'var-vs-param', P([E(V('A'), B('+', V('X'), V('X', 'param')))])
    yield 'param-vs-error-other-eq', P([E(V('A'), V('X', 'param')), E(V('B'), V('X', 'error'))])
    yield 'endo-as-param', P([E(V('A'), V('X')), E(V('B'), V('A', 'param'))])
    yield 'endo-as-error-before-def', P([E(V('B'), V('A', 'error')), E(V('A'), V('X'))])
    yield 'double-different', P([E(V('A'), V('X')), E(V('A'), V('Z'))])
    yield 'double-identical', P([E(V('A'), V('X')), E(V('A', explicit=True), V('X', explicit=True))])
    yield 'double-different-offset', P([E(V('A'), V('X')), E(V('A'), V('X', off=-1))])
    yield 'func-then-var', P([E(V('A'), B('+', gen.Call('exp', [V('X')]), V('exp')))])
    yield 'var-then-func', P([E(V('A'), B('+', V('exp'), gen.Call('exp', [V('X')])))])
    yield 'func-var-other-eq', P([E(V('A'), gen.Call('log', [V('X')])), E(V('B'), V('log'))])
    yield 'lhs-is-func-name', P([E(V('max'), gen.Call('max', [V('X'), N('1')]))])
    yield 'func-name-as-var-only', P([E(V('A'), B('*', V('max'), V('exp', off=-1)))])
    yield 'no-rhs-terms', P([E(V('A'), N('1'))])
    yield 'self-lag', P([E(V('A'), B('+', V('A', off=-1), N('1')))])


def run_shard(ctx):
    rng = ctx.rng('c03')
    all_settings = list(itertools.product(SETTINGS, SETTINGS, [None, 0, 1, 3], [None, 0, 1, 3]))
    # 1. hand-picked merge shapes x all 256 settings
    for i, (tag, prog) in enumerate(merge_catalogue()):
        if not ctx.mine(i):
            continue
        script = gen.render_program(prog)
        ctx.evaluation((script, 'all-settings'), nontrivial=True, sample={'script': script, 'kind': tag})
        ctx.seen('merge_shapes', tag)
        one_program(ctx, prog, script, rng, all_settings if not ctx.quick else all_settings[::5] + [(None, None, None, None)])
    # 2. random programs, with conflicts
    count = ctx.pick(300, 8000)
    rp = gen.RandomPrograms(rng, max_depth=3, max_eqs=6, max_names=8, big_offsets=True, conflict_rate=0.25, funcvar_rate=0.1,
                            lhs_offsets=(0, 0, 0, 0, 0, -1, 1), allow=('num', 'neg', 'bin', 'paren', 'call1', 'call2', 'ifexp', 'cmp', 'named', 'verb', 'block'))
    # user-supplied functions with one-letter, underscore and dotted one-letter names: a name followed by '(' is a function
    rp.extra_funcs1 = ['f', '_', 'h.k']
    rp.extra_funcs2 = ['g']
    for k in range(count):
        prog = rp.program()
        lay = gen.Layout(rng, noise=rng.choice([0.0, 0.3]), breaks=rng.choice([0.0, 0.2]), comments=rng.choice([0.0, 0.2]),
                         pre_p=rng.choice([0.0, 0.0, 0.6]), inner_p=rng.choice([0.0, 0.3]))     # blanks before an index bracket and inside brackets
        script = gen.render_program(prog, lay)
        st = [(None, None, None, None)] + rng.sample(all_settings, ctx.pick(3, 8))
        names = {tm.name for s in prog.equations() for tm in s.terms()}
        ctx.evaluation((script, st), nontrivial=len(names) >= 2, sample={'script': script, 'settings': st})
        out = one_program(ctx, prog, script, rng, st)
        ctx.seen('outcomes', out)
    multi_target(ctx, rng)


def multi_target(ctx, rng):
    """Statements with several left-hand-side terms (`A, B = e1, e2`): every target is endogenous, right-hand-side-only names are
    exogenous, and a *different* equation for any of the targets (first or not, before or after, single- or multi-target) is
    rejected as a double definition, while an identical repetition is accepted."""
    import fsic
    pool = ['A', 'B', 'C_', 'Dd', 'E1', 'F', 'G', 'H', 'K', 'M']
    for i in range(ctx.pick(60, 600)):
        names = rng.sample(pool, 8)
        k = rng.choice([2, 2, 3])
        targets, rhs = names[:k], names[k:2 * k]
        stmt = ', '.join(targets) + ' = ' + ', '.join(f'{x}[-1]' if rng.random() < 0.3 else x for x in rhs)
        victim = rng.choice(targets)
        other_rhs = names[2 * k]
        how = rng.choice(['single', 'multi-first', 'multi-last', 'identical', 'none'])
        second = {'single': f'{victim} = {other_rhs}', 'multi-first': f'{victim}, {names[2 * k + 1]} = {other_rhs}, 1', 'multi-last': f'{names[2 * k + 1]}, {victim} = 1, {other_rhs}',
                  'identical': stmt, 'none': f'{names[2 * k + 1]} = {other_rhs}'}[how]
        script = '\n'.join([stmt, second] if rng.random() < 0.5 else [second, stmt])
        case = {'script': script, 'multi_target': how}
        ctx.evaluation(script, nontrivial=True, sample=case)
        ctx.count('multi_target_scripts')
        try:
            symbols = fsic.parse_model(script)
            outcome = 'accepted'
        except (fsic.exceptions.ParserError, fsic.exceptions.SymbolError) as e:
            outcome = type(e).__name__
        except Exception as e:
            ctx.violation('parse-foreign-exception', f'{script!r}: {type(e).__name__}: {e}', case)
            continue
        if how in ('single', 'multi-first', 'multi-last'):
            if outcome == 'accepted':
                ctx.violation('must-reject-accepted', f'{script!r}: {victim} is defined by two different equations but the script was accepted', case)
            continue
        if outcome != 'accepted':
            ctx.violation('unexpected-reject', f'{script!r} rejected with {outcome}', case)
            continue
        types = {x.name: x.type.name for x in symbols}
        bad = [t for t in targets if types.get(t) != 'ENDOGENOUS'] + [r for r in rhs if types.get(r) != 'EXOGENOUS']
        if bad:
            ctx.violation('symbol-classification', f'{script!r}: targets {targets} must be endogenous and {rhs} exogenous; got {types}', case)


def replay(ctx, case):
    if case.get('multi_target'):
        ctx.inconclusive_because('multi-target cases are replayed by re-running the shard with the same VERIF_SEED')
        return
    prog = gen.from_json(case['program'])
    st = [(None, None, None, None)]
    if case.get('settings'):
        kw = case['settings']
        st.append((kw.get('lags'), kw.get('leads'), kw.get('min_lags'), kw.get('min_leads')))
    ctx.evaluation(case['script'], nontrivial=True)
    one_program(ctx, prog, case['script'], ctx.rng('c03'), st)
