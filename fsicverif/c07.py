"""C07 - the Fortran back-end computes what the Python back-end computes.

Monitor: the Fortran source produced by build_fortran_definition is compiled *unchanged*
with gfortran in two instrumented flavours - `-fcheck=all` (every subscript bounds-checked:
the Fortran counterpart of the recording arrays) and `-fsanitize=address,undefined` - and
driven through the real FortranEngine wrapper via a ctypes shim with f2py's calling
convention.  Every call runs in a forked child, so a Fortran runtime abort or a sanitizer
report is an observation attached to the case.  Values, statuses, iteration counts, return
values and exception classes are compared with the pure-Python class built from the same
symbols on the same finite data."""
import itertools
import os
import re
import shutil
import tempfile
import warnings

import numpy as np

from . import fortran, gen, ref
from .c01 import parser_errors

PROPERTY = 'C07'
LEVEL = 'translation_validation'
RULE = ('random C01-grammar programs restricted to + - * / **, unary minus, parentheses, exp/log/max/min/abs, parameters, errors, lags, '
        'leads, long equations that wrap, up to 30 variables; family A literal-free (constants through parameters), family B with '
        'integer/decimal literals; random finite data; entry points _evaluate / solve_t / solve, positive and negative t, offsets, '
        'min/max_iter, tol, failures, errors; both sanitizer flavours. A program counts as non-trivial if it compiled and at least one '
        'finite run was compared')
ASSUMPTIONS = ['the ctypes shim stands in for f2py: same argument order, hidden dimension arguments, Fortran-ordered copies, no index adjustment',
               'values agree when |a-b| <= 1e-12 * max(1, |a|, |b|) (libm/powi rounding is ~1e-16, a single-precision literal ~1e-8)',
               'iteration counts are compared unless a Python pass moved within a relative 1e-6 of tol (borderline: counted, not compared)',
               'only runs whose Python values stay finite are compared',
               'a discrepancy in a program with numeric literals is attributed to the literals only if its literal-free twin agrees']
ANCHORS = [('fsic/fortran.py', 'build_fortran_definition'), ('fsic/fortran.py', 'FortranEngine.solve'), ('fsic/fortran.py', 'FortranEngine.solve_t'),
           ('fsic/fortran.py', 'FortranEngine._evaluate')]
REQUIRED_COUNTERS = {'programs_compiled': 16, 'runs_compared': 300, 'fortran_calls': 300}
LEVEL_TEXT = ('Translation validation by differential execution: each generated Fortran module is compiled with bounds checking / ASan+UBSan and '
              'run against the Python class built from the same symbols over entry points, options and data; sanitizer or runtime-check reports '
              'are violations.')
LEVEL_NOTE = 'Trusted: gfortran, the ctypes shim (f2py convention), the tolerance 1e-12. ASan cannot see intra-buffer overflows; -fcheck=all is the deciding build.'
TECHNIQUE = 'compiler sanitizers (gfortran -fcheck=all, ASan+UBSan) + differential execution through the real wrapper'


def nshards(tier):
    return 16


def shard_env(shard, tier):
    return fortran.preload_env() if shard % 2 == 1 else {}


def flavour(ctx):
    return 'asan' if (ctx.shard % 2 == 1 and os.environ.get('LD_PRELOAD')) else 'check'


def evidence_extra(tier, counters, viol_counts):
    return {'programs': int(counters.get('programs_compiled', 0)),
            'disagreements_checked': int(counters.get('literal_twins_run', 0) + sum(viol_counts.values())),
            'explanation': 'programs = generated Fortran modules compiled and run against the Python class; disagreements_checked = discrepancies examined '
                           '(literal-free twin re-runs plus reported observations)'}


class Programs(gen.RandomPrograms):
    """Common subset of both back-ends."""

    def __init__(self, rng, literals, **kw):
        super().__init__(rng, allow=('num', 'neg', 'bin', 'paren', 'call1', 'call2') if literals else ('neg', 'bin', 'paren', 'call1', 'call2'),
                         literals=literals or ('1',), **dict({'lhs_offsets': (0,)}, **kw))

    def func(self, pool):
        f = self.rng.choice(['exp', 'log', 'abs'] if pool is gen.FUNCS1 else ['max', 'min'])
        if f in self.kind_of or f in self.names:
            return None
        self.used_funcs.add(f)
        return f


NAMES = ['C', 'Y', 'H_h', 'x1', 'X_if', 'Pin', 'origin', 'T', 'G', 'YD', 'a', 'b', 'k9', 'N__d', 'alpha_1', 'e', 'index', 'tt', 'solved', 'nrows',
         'ncols', 'error_code', 'Zz', 'W', 'V', 'iteration', 'converged', 'q', 'r', 's', 't', 'solved_values', 'tol']


def literal_free_twin(prog):
    """Replace every numeric literal by a fresh parameter holding its double value."""
    import copy
    twin = copy.deepcopy(prog)
    values = {}

    def fix(node):
        for attr in getattr(node, '__slots__', ()):
            v = getattr(node, attr)
            if isinstance(v, gen.Num):
                name = f'lit{len(values)}'
                values[name] = float(v.text)
                setattr(node, attr, gen.Var(name, 'param', 0))
            elif isinstance(v, gen.Node):
                fix(v)
            elif isinstance(v, list):
                for i, x in enumerate(v):
                    if isinstance(x, gen.Num):
                        name = f'lit{len(values)}'
                        values[name] = float(x.text)
                        v[i] = gen.Var(name, 'param', 0)
                    elif isinstance(x, gen.Node):
                        fix(x)
    for e in twin.equations():
        if isinstance(e.rhs, gen.Num):
            name = f'lit{len(values)}'
            values[name] = float(e.rhs.text)
            e.rhs = gen.Var(name, 'param', 0)
        else:
            fix(e.rhs)
    return twin, values


def close(a, b, sens=0.0):
    """Equal to floating-point rounding: 1e-12 relative, widened by the measured conditioning of the run (`sens` = relative spread
    of the Python result under a 1e-13 relative perturbation of the inputs; well-conditioned runs have sens ~ 1e-13)."""
    a, b = np.asarray(a, dtype=float), np.asarray(b, dtype=float)
    if a.shape != b.shape:
        return False
    tol = 1e-12 + 10.0 * max(0.0, sens)
    with np.errstate(all='ignore'):
        scale = np.maximum(1.0, np.maximum(np.abs(a), np.abs(b)))
        return bool(np.all((np.abs(a - b) <= tol * scale) | (np.isnan(a) & np.isnan(b)) | (a == b)))


def option_sets(rng, n, L, D, count):
    out = []
    feas = list(range(L, n - D))
    for _ in range(count):
        t = rng.choice(feas)
        o = dict(entry=rng.choice(['solve_t', 'solve_t', 'solve', '_evaluate']), t=rng.choice([t, t - n]), min_iter=rng.choice([0, 0, 1, 2, 3]),
                 max_iter=rng.choice([1, 2, 5, 40, 40]), tol=rng.choice([1e-10, 1e-6, 1e-3, 0.5]), failures=rng.choice(['raise', 'ignore']),
                 errors=rng.choice(['raise', 'raise', 'ignore', 'skip', 'replace']), offset=rng.choice([0, 0, 0, -1, 1, -n, n]))
        if o['entry'] == 'solve':
            a, b = rng.choice(feas), rng.choice(feas)
            o['start'], o['end'] = rng.choice([(None, None), (a, b), (min(a, b), max(a, b)), (0, None), (None, n - 1)])
        out.append(o)
    # boundary periods: last infeasible / first feasible at both ends, both spellings
    for tb in ({L - 1, L, n - D - 1, n - D} if (L or D) else set()):
        if 0 <= tb < n:
            out.append(dict(entry=rng.choice(['solve_t', '_evaluate']) if L <= tb < n - D else 'solve_t', t=rng.choice([tb, tb - n]), min_iter=0, max_iter=3, tol=1e-6,
                            failures='ignore', errors='raise', offset=0))
    # the Fortran evaluate() routine has its own feasibility guard: every infeasible position must give IndexError
    for tb in range(n):
        if not L <= tb < n - D:
            out.append(dict(entry='_evaluate', t=rng.choice([tb, tb - n]), min_iter=0, max_iter=1, tol=1e-6, failures='ignore', errors='raise', offset=0, fortran_only=True))
    # positions outside the span altogether, at either end and far out (where a wrapped index would land on a feasible period)
    for tt in (-n - 1, -2 * n, -2 * n - feas[0] - 1 + n, -3 * n + feas[-1], n, n + feas[0], 2 * n + 1):
        # (the Python _evaluate() has no guard of its own - it fails or not depending on which cells the equations happen to touch -
        #  so for that entry point the Fortran routine is held to its own rule: IndexError and no change; solve_t is compared)
        entry = rng.choice(['_evaluate', '_evaluate', 'solve_t'])
        out.append(dict(entry=entry, t=tt, min_iter=0, max_iter=2, tol=1e-6, failures='ignore', errors='raise', offset=0, **({'fortran_only': True} if entry == '_evaluate' else {})))
    # infeasible explicit periods and min_iter > max_iter
    out.append(dict(entry='solve_t', t=rng.choice([0, -n] if L else [n - 1, -1]) if (L or D) else feas[0], min_iter=0, max_iter=5, tol=1e-6, failures='ignore', errors='raise', offset=0))
    out.append(dict(entry='solve_t', t=feas[0], min_iter=4, max_iter=2, tol=1e-6, failures='ignore', errors='raise', offset=0))
    # extreme tolerances: nothing moves by less than NaN, zero or a negative number; everything finite moves by less than +inf
    for tol in (float('nan'), float('inf'), 0.0, -1.0):
        out.append(dict(entry=rng.choice(['solve_t', 'solve']), t=feas[0], min_iter=rng.choice([0, 2]), max_iter=rng.choice([1, 4]), tol=tol, failures=rng.choice(['raise', 'ignore']),
                        errors='raise', offset=0))
    return out


def run_side(model, o, record=None, trap=False):
    """Run one call; returns (kind, payload)."""
    if trap:
        return _run_side(model, o)
    with ref.quiet():
        return _run_side(model, o)


def _run_side(model, o):
    kw = dict(min_iter=o['min_iter'], max_iter=o['max_iter'], tol=o['tol'], failures=o['failures'], errors=o['errors'])
    if o['offset']:
        kw['offset'] = o['offset']
    for k in o.get('omit', ()):
        kw.pop(k, None)          # left out: each back-end falls back on its own default, and the defaults are the same
    with warnings.catch_warnings():
        warnings.simplefilter('ignore')
        try:
            if o['entry'] == '_evaluate':
                model._evaluate(o['t'])
                r = None
            elif o['entry'] == 'solve_t':
                r = bool(model.solve_t(o['t'], **kw))
            else:
                span = list(model.span)
                if o.get('start') is not None:
                    kw['start'] = span[o['start']]
                if o.get('end') is not None:
                    kw['end'] = span[o['end']]
                labels, idx, flags = model.solve(**kw)
                r = (list(labels), [int(i) for i in idx], [bool(f) for f in flags])
            return ('ret', r)
        except Exception as e:
            return ('exc', type(e).__name__, str(e)[:160])


def compare_program(symbols_text, so, datasets, optsets, names, bopts=None):
    """Runs in a forked child: build both classes, run every option set on every dataset, return observations."""
    import fsic
    from fsic.fortran import FortranEngine
    symbols = fsic.parse_model(symbols_text)
    Py = fsic.build_model(symbols, **(bopts or {}))

    class Rec(Py):
        def _evaluate(self, t, **kw):
            super()._evaluate(t, **kw)
            self.__dict__.setdefault('v_checks', []).append([float(self.__dict__['_' + k][t]) for k in self.check])
            if not all(np.isfinite(self.__dict__['_' + k][t]) for k in self.names):
                self.__dict__['v_nonfinite_pass'] = True

    class F(FortranEngine, Py):
        ENGINE = fortran.make_engine(so)

    obs = []
    for di, data in enumerate(datasets):
        n = len(next(iter(data.values())))
        for o in optsets:
            p = Rec(range(n), **data)
            f = F(range(n), **data)
            if o.get('check'):
                # instance-level convergence variables differing from the class-level CHECK
                p.check = list(o['check'])
                f.check = list(o['check'])
            start = [float(p[k][o['t']]) for k in p.check] if o['entry'] == 'solve_t' and -n <= o['t'] < n else None
            rp = run_side(p, o)
            rf = run_side(f, o)
            # domain probe: the same call with floating-point exceptions trapped; any invalid / divide / overflow in an
            # intermediate result (e.g. log of a negative number feeding min()) puts the run outside "values stay finite"
            probe = Rec(range(n), **data)
            if o.get('check'):
                probe.check = list(o['check'])
            with np.errstate(invalid='raise', divide='raise', over='raise', under='ignore'):
                rprobe = run_side(probe, o, trap=True)
            fp_trapped = rprobe != rp
            # conditioning probe: the same call on inputs perturbed by 1e-13 (relative).  An iteration that amplifies such a
            # perturbation amplifies the two back-ends' different roundings just as much: the spread it produces scales the
            # tolerance of the value comparison ("to floating-point rounding"); if it changes the outcome, the run is not compared
            pdata = {k: np.asarray(v, dtype=float) * (1.0 + 1e-13 * (1 if i % 2 else -1)) for i, (k, v) in enumerate(data.items())}
            cond = Rec(range(n), **pdata)
            if o.get('check'):
                cond.check = list(o['check'])
            rcond = run_side(cond, o)
            with np.errstate(all='ignore'):
                spread = np.abs(cond.values - p.values) / np.maximum(1.0, np.maximum(np.abs(cond.values), np.abs(p.values)))
                sens = float(np.nanmax(spread)) if spread.size and np.any(np.isfinite(spread)) else 0.0
            unstable = (rcond[:2] != rp[:2]) or ''.join(cond.status) != ''.join(p.status) or cond.iterations.tolist() != p.iterations.tolist() or not np.isfinite(sens)
            passes = p.__dict__.get('v_checks', [])
            # borderline convergence: a pass whose largest move is within 1e-6 (relative) of tol
            borderline = False
            prev = start
            for cur in passes:
                if prev is not None and len(prev) == len(cur) and cur:
                    with np.errstate(all='ignore'):
                        mv = max(abs(a - b) for a, b in zip(cur, prev)) if cur else 0.0
                    if np.isfinite(mv) and np.isfinite(o['tol']) and abs(mv - o['tol']) <= 1e-6 * max(o['tol'], mv):
                        borderline = True
                prev = cur
            obs.append(dict(o=o, di=di, rp=rp, rf=rf, pv=p.values.copy(), fv=f.values.copy(), ps=''.join(p.status), fs=''.join(f.status),
                            pi=p.iterations.tolist(), fi=f.iterations.tolist(), borderline=borderline or unstable, sens=sens, py_finite=bool(np.all(np.isfinite(p.values))) and not p.__dict__.get('v_nonfinite_pass', False) and not fp_trapped))
    return obs


def structure_ok(src, Model):
    """Variable numbering in the `structure` module matches the Python class's variable order."""
    problems = []
    names = list(Model.NAMES)
    for group, lst in (('endogenous', Model.ENDOGENOUS), ('exogenous', Model.EXOGENOUS), ('parameters', Model.PARAMETERS), ('errors', Model.ERRORS)):
        m = re.search(r'integer, dimension\((\d+)\)\s*(?:&\s*&\s*)?:: ' + group + r'(?:\s*(?:&\s*&\s*)?=\s*(?:&\s*&\s*)?\(/(.*?)/\))?', src, re.S)
        if not m:
            problems.append(f'{group}: definition not found')
            continue
        nums = [int(x) for x in re.findall(r'\d+', m.group(2) or '')]
        want = [names.index(x) + 1 for x in lst]
        if int(m.group(1)) != len(lst) or nums != want:
            problems.append(f'{group}: numbers {nums} (dimension {m.group(1)}), Python order gives {want}')
    m = re.search(r'integer :: lags = (\d+), leads = (\d+)', src)
    if not m or (int(m.group(1)), int(m.group(2))) != (Model.LAGS, Model.LEADS):
        problems.append(f'lags/leads {m.groups() if m else None} != {(Model.LAGS, Model.LEADS)}')
    return problems


TIGHT = {'on': False}      # render the next program without any blanks (long unbroken runs of text in the generated Fortran)


def one_program(ctx, prog, rng, workdir, tag, has_literals, depth=0, fixed=None):
    import fsic
    from fsic.fortran import build_fortran_definition
    script = gen.render_program(prog, gen.Layout(__import__('random').Random(0), noise=0.0, tight=True)) if TIGHT['on'] else gen.render_program(prog)
    case = {'script': script, 'program': gen.to_json(prog), 'flavour': flavour(ctx)}
    try:
        symbols = fsic.parse_model(script)
        Model = fsic.build_model(symbols)
    except Exception:
        ctx.count('program_rejected')
        return None
    # lag/lead build options, given to both back-ends alike (imposed values never below what the equations need)
    bopts = {}
    if fixed is not None:
        bopts = dict(fixed.get('build_options') or {})
    elif rng.random() < 0.3:
        L0, D0 = Model.LAGS, Model.LEADS
        for key, base in (('lags', L0), ('leads', D0)):
            r = rng.random()
            if r < 0.35:
                bopts[key] = base + rng.choice([0, 1, 2])
            if rng.random() < 0.5:
                bopts['min_' + key] = rng.choice([0, base, base + 1, base + 3])
    if bopts:
        ctx.count('programs_with_build_options')
        case['build_options'] = dict(bopts)
        Model = fsic.build_model(symbols, **bopts)
    try:
        src = build_fortran_definition(symbols, wrap_width=rng.choice([100, 100, 60]), **bopts)
    except Exception as e:
        ctx.violation('fortran-definition-raises', f'build_fortran_definition raised {type(e).__name__}: {e}', case)
        return 'fail'
    so, err = fortran.compile_source(src, workdir, tag, flavour(ctx))
    if so is None:
        if has_literals and depth == 0:
            return literal_fallback(ctx, prog, rng, workdir, tag, case, f'does not compile: {err.strip().splitlines()[-1] if err.strip() else err}')
        ctx.violation('fortran-compile-failure', f'generated Fortran for {script!r} does not compile: {err[-600:]}', case)
        return 'fail'
    ctx.count('programs_compiled')
    probs = structure_ok(src, Model)
    if probs:
        ctx.violation('fortran-variable-numbering', f'structure module disagrees with the Python class: {probs}', case)
        return 'fail'
    L, D = Model.LAGS, Model.LEADS
    n = L + D + rng.choice([2, 3, 5])
    names = list(Model.NAMES)
    datasets = []
    for k in range(2):
        d = ref.make_data(names, n, rng, 'positive')
        for nm in Model.PARAMETERS:
            d[nm] = np.full(n, round(rng.uniform(0.1, 0.9), 3))
        datasets.append(d)
    optsets = option_sets(rng, n, L, D, ctx.pick(6, 10))
    endo = list(Model.ENDOGENOUS)
    if endo and rng.random() < 0.4:
        # a third dataset whose starting guesses for the endogenous variables are huge (but finite) numbers of one sign
        d = {k: v.copy() for k, v in datasets[0].items()}
        for nm in endo:
            d[nm] = np.full(n, rng.choice([1.5e308, -1.5e308, 1.0e308]))
        datasets.append(d)
    for o in optsets:
        if len(endo) > 1 and o['entry'] in ('solve', 'solve_t') and rng.random() < 0.3:
            o['check'] = rng.sample(endo, rng.randint(1, len(endo) - 1))
    if fixed is not None:
        datasets = [{k: np.array(v, dtype=float) for k, v in fixed['data'].items()}]
        optsets = [fixed['options']]
    res = fortran.isolated(compare_program, script, so, datasets, optsets, names, bopts)
    if res[0] != 'ok':
        msg = res[2][-900:] if len(res) > 2 else ''
        mech = 'fortran-runtime-check-abort' if 'Fortran runtime error' in msg else ('sanitizer-report' if ('Sanitizer' in msg or 'runtime error:' in msg) else 'fortran-child-died')
        if has_literals and depth == 0:
            return literal_fallback(ctx, prog, rng, workdir, tag, case, f'{mech}: {msg[-300:]}')
        ctx.violation(mech, f'running the generated module for {script!r} ({flavour(ctx)} build) died with status {res[1]}: {msg}', case)
        return 'fail'
    if res[2] and ('runtime error' in res[2] or 'Sanitizer' in res[2]):
        ctx.violation('sanitizer-report', f'sanitizer output while running {script!r}: {res[2][-600:]}', case)
        return 'fail'
    outcome = 'ok'
    # hand-made cases in binary fractions (every value and every move exactly representable): both back-ends compute them
    # without rounding, so nothing is excused as borderline or ill-conditioned - `< tol` versus `<= tol` is decided here
    exact = bool(fixed is not None and fixed.get('exact'))
    for ob in res[1]:
        o = ob['o']
        ctx.count('fortran_calls')
        if o.get('fortran_only'):
            ctx.count('fortran_infeasible_evaluate_checked')
            f0 = np.array([datasets[ob['di']][k] for k in names])
            if ob['rf'][0] != 'exc' or ob['rf'][1] != 'IndexError' or not close(ob['fv'], f0):
                ctx.violation('fortran-infeasible-evaluate-served', f'FortranEngine._evaluate({o["t"]}) on {script!r} (LAGS={L}, LEADS={D}, {n} periods): expected IndexError and no change, got {ob["rf"]}', dict(case, options=o))
                outcome = 'fail'
                break
            continue
        if not ob['py_finite']:
            ctx.count('nonfinite_python_run_skipped')
            continue
        ctx.count('runs_compared')
        ctx.seen('entries', o['entry'])
        c2 = dict(case, options=o, data={k: v.tolist() for k, v in datasets[ob['di']].items()})
        rp, rf = ob['rp'], ob['rf']
        bad = None
        if rp[0] != rf[0]:
            bad = ('fortran-outcome', f'Python -> {rp}, Fortran -> {rf}')
        elif rp[0] == 'exc' and rp[1] != rf[1]:
            bad = ('fortran-exception-class', f'Python raised {rp[1]} ({rp[2]}), Fortran wrapper raised {rf[1]} ({rf[2]})')
        elif ob['borderline'] and not exact and not close(ob['pv'], ob['fv'], ob.get('sens', 0.0)):
            ctx.count('ill_conditioned_or_borderline_run_not_compared')
        elif not close(ob['pv'], ob['fv'], 0.0 if exact else ob.get('sens', 0.0)):
            diff = np.abs(ob['pv'] - ob['fv'])
            i, j = np.unravel_index(np.nanargmax(diff), diff.shape)
            bad = ('fortran-values', f'{names[i]}[{j}]: Python {ob["pv"][i, j]!r}, Fortran {ob["fv"][i, j]!r}')
        elif ob['borderline'] and not exact:
            ctx.count('borderline_convergence_not_compared')
        elif rp[0] == 'ret' and rp[1] != rf[1]:
            bad = ('fortran-return-value', f'Python returned {rp[1]!r}, Fortran {rf[1]!r}')
        elif ob['ps'] != ob['fs'] or ob['pi'] != ob['fi']:
            bad = ('fortran-status-iterations', f'statuses {ob["ps"]} / {ob["fs"]}, iterations {ob["pi"]} / {ob["fi"]}')
        if bad:
            if has_literals and depth == 0:
                return literal_fallback(ctx, prog, rng, workdir, tag, c2, f'{bad[0]}: {bad[1]}')
            ctx.violation(bad[0], f'{o["entry"]}({ {k: v for k, v in o.items() if k != "entry"} }) on {script!r}: {bad[1]}', c2)
            outcome = 'fail'
            break
    return outcome


def literal_fallback(ctx, prog, rng, workdir, tag, case, what):
    """A discrepancy in a program with numeric literals: re-run its literal-free twin."""
    twin, values = literal_free_twin(prog)
    ctx.count('literal_twins_run')
    r = one_program_twin(ctx, twin, values, rng, workdir, tag + 't')
    if r == 'ok':
        ctx.violation('fortran-literal-kinds', f'{what} - the literal-free twin (literals supplied as parameters) agrees', case)
    else:
        ctx.violation('fortran-discrepancy-not-explained-by-literals', f'{what} - and the literal-free twin also fails ({r})', case)
    return 'literal'


def one_program_twin(ctx, twin, values, rng, workdir, tag):
    sub = SubCtx(ctx)
    r = one_program(sub, twin, rng, workdir, tag, has_literals=False, depth=1)
    return 'ok' if (r == 'ok' and not sub.failed) else (sub.failed or r)


class SubCtx:
    """Context proxy for the twin run: counts but does not report."""

    def __init__(self, ctx):
        self.ctx = ctx
        self.failed = None
        self.shard = ctx.shard

    def __getattr__(self, k):
        return getattr(self.ctx, k)

    def violation(self, mech, what, case):
        self.failed = mech

    def count(self, name, n=1):
        self.ctx.count('twin_' + name, n)

    def seen(self, *a):
        pass


def run_shard(ctx):
    rng = ctx.rng('c07')
    workdir = tempfile.mkdtemp(prefix='fsicverif-c07-')
    ctx.seen('flavours', flavour(ctx))
    try:
        count = ctx.pick(10, 300)
        for i in range(count):
            literals = i % 3 == 2
            big = i % 5 == 4
            rp = Programs(rng, ('1', '2', '0.5', '3', '0.1', '2.5', '10') if literals else None, names=NAMES, max_depth=4 if not big else 5,
                          max_eqs=3 if not big else 8, max_names=6 if not big else 28, offsets=(-2, -1, -1, 0, 0, 0, 1, 2), kinds=('var', 'var', 'var', 'param', 'error'),
                          lhs_offsets=(0, 0, 0, 0, 0, -1, 1))       # an equation may assign to a neighbouring period (K[1] = ...)
            prog = rp.program()
            if gen.classify(prog).reject:
                continue
            TIGHT['on'] = i % 4 == 1 or (big and i % 2 == 0)
            script = gen.render_program(prog, gen.Layout(__import__('random').Random(0), noise=0.0, tight=True)) if TIGHT['on'] else gen.render_program(prog)
            ctx.evaluation(script, nontrivial=True, sample={'script': script, 'literals': literals, 'flavour': flavour(ctx)})
            try:
                r = one_program(ctx, prog, rng, workdir, f'm{ctx.shard}_{i}', has_literals=literals)
            finally:
                TIGHT['on'] = False
            ctx.seen('outcomes', str(r))
            ctx.count('programs')
        exact_tolerance(ctx, rng, workdir)
        huge_guesses(ctx, rng, workdir)
        if ctx.shard % 4 == 0:
            blank_period_with_offset(ctx, rng, workdir)
        default_options(ctx, rng, workdir)
        # hand-written corner programs
        V, N, B, E, P, C = gen.Var, gen.Num, gen.Bin, gen.Eq, gen.Program, gen.Call
        corner = [
            P([E(V('Y'), B('+', V('C'), V('G'))), E(V('C'), B('*', V('c', 'param'), V('Y')))]),
            P([E(V('H'), B('+', V('H', off=-1), B('-', V('YD'), V('C')))), E(V('YD'), B('-', V('Y'), V('T'))), E(V('T'), B('*', V('theta', 'param'), V('Y'))),
               E(V('Y'), B('+', V('C'), V('G'))), E(V('C'), B('+', B('*', V('a1', 'param'), V('YD')), B('*', V('a2', 'param'), V('H', off=-1))))]),
            P([E(V('Y'), B('+', V('X', off=-2), V('X', off=2)))]),
            P([E(V('t'), B('*', V('t', off=-1), V('index')))]),
            P([E(V('Y'), C('max', [V('X'), C('min', [V('Z'), C('exp', [gen.Neg(C('abs', [V('W')]))])])]))]),
            P([E(V('Y'), B('+', B('*', V('b', 'param'), V('Y', off=-1)), V('e', 'error')))]),
            # offsets of more than one digit (a monthly model's year-on-year terms), next to one-digit offsets of the same variables
            P([E(V('Y'), B('+', B('*', N('0.5'), V('X', off=-12)), B('-', V('X', off=-1), B('*', N('0.25'), V('Y', off=-10)))))]),
            P([E(V('Y'), B('+', V('X', off=11), B('*', N('0.5'), V('X', off=1)))), E(V('Z'), B('-', V('Y', off=-10), V('Y', off=-1)))]),
        ]
        # long statements written without a single blank (the generated Fortran then has long unbroken runs to wrap)
        names_ = ['C', 'G', 'YD', 'W', 'V', 'Zz', 'T', 'H_h', 'x1', 'Pin', 'origin', 'k9']
        long_sum = V(names_[0])
        for j, nm in enumerate(names_[1:]):
            long_sum = B('+-*'[j % 3], long_sum, V(nm, off=[0, -1, 0, 1][j % 4]))
        tight_progs = [P([E(V('Y'), long_sum)]), P([E(V('Y'), B('/', B('*', gen.Paren(B('+', V('C'), V('G'))), gen.Paren(B('+', V('W'), V('V', off=-1)))), gen.Paren(B('+', V('T'), V('Zz'))))),
                                                     E(V('Q'), long_sum)])]
        for k, prog in enumerate(tight_progs):
            if ctx.mine(k) or ctx.mine(k + 2):
                TIGHT['on'] = True
                try:
                    script = gen.render_program(prog, gen.Layout(__import__('random').Random(0), noise=0.0, tight=True))
                    ctx.evaluation(script, nontrivial=True)
                    one_program(ctx, prog, rng, workdir, f't{ctx.shard}_{k}', has_literals=False)
                    ctx.count('programs')
                finally:
                    TIGHT['on'] = False
        for k, prog in enumerate(corner):
            if ctx.mine(k) or ctx.mine(k + 1):
                script = gen.render_program(prog)
                ctx.evaluation(script, nontrivial=True)
                one_program(ctx, prog, rng, workdir, f'c{ctx.shard}_{k}', has_literals=False)
                ctx.count('programs')
    finally:
        shutil.rmtree(workdir, ignore_errors=True)


def exact_tolerance(ctx, rng, workdir):
    """A check variable that moves by exactly tol every pass (binary fractions): strictly-less-than must not converge."""
    V, B, E, P = gen.Var, gen.Bin, gen.Eq, gen.Program
    prog = P([E(V('Y'), B('+', V('Y'), V('d', 'param')))])
    script = gen.render_program(prog)
    for d, tol, it in ((0.5, 0.5, 3), (0.25, 0.25, 2), (0.5, 0.75, 4), (0.125, 0.125, 1)):
        fixed = {'exact': True, 'data': {'Y': [1.0, 2.0, 3.0], 'd': [d, d, d]},
                 'options': dict(entry='solve_t', t=1, min_iter=0, max_iter=it, tol=tol, failures='ignore', errors='raise', offset=0)}
        ctx.evaluation((script, d, tol, it), nontrivial=True)
        one_program(ctx, prog, rng, workdir, f'tol{ctx.shard}', has_literals=False, fixed=fixed)


def default_options(ctx, rng, workdir):
    """Options left out fall back on each back-end's own defaults - which are the same: an oscillation that never settles (exact in
    binary fractions) runs into the default max_iter, a slow contraction into the default tol, with every subset of options omitted."""
    V, B, E, P = gen.Var, gen.Bin, gen.Eq, gen.Program
    progs = [(P([E(V('Y'), B('-', V('d', 'param'), V('Y')))]), {'Y': [1.0, 1.0, 1.0], 'd': [0.5, 0.5, 0.5]}),                      # 1, -0.5, 1, ... for ever
             (P([E(V('Y'), B('+', B('*', V('c', 'param'), V('Y')), V('d', 'param')))]), {'Y': [0.0] * 3, 'c': [0.96875] * 3, 'd': [1.0] * 3})]   # needs > 100 passes for 1e-10
    for k, (prog, data) in enumerate(progs):
        script = gen.render_program(prog)
        for omit in (['max_iter'], ['tol'], ['max_iter', 'tol'], ['max_iter', 'tol', 'min_iter', 'failures', 'errors'], ['min_iter'], ['errors', 'failures']):
            for entry in ('solve_t', 'solve'):
                fixed = {'exact': k == 0, 'data': data,
                         'options': dict(entry=entry, t=1, min_iter=0, max_iter=100, tol=1e-10, failures='raise' if 'failures' in omit else 'ignore', errors='raise', offset=0, omit=omit)}
                ctx.evaluation((script, tuple(omit), entry), nontrivial=True)
                ctx.count('runs_on_default_options')
                one_program(ctx, prog, rng, workdir, f'dflt{ctx.shard}', has_literals=False, fixed=fixed)


def huge_guesses(ctx, rng, workdir):
    """Starting guesses that are large but finite (each of them is; their sum is not): nothing is non-finite beforehand, so the
    period is solved - by either back-end, through every entry point, with and without an offset."""
    V, B, E, P = gen.Var, gen.Bin, gen.Eq, gen.Program
    prog = P([E(V('Y'), B('+', V('X'), V('d', 'param'))), E(V('Z'), B('*', V('X'), V('d', 'param'))), E(V('W'), B('-', V('X'), V('Y')))])
    script = gen.render_program(prog)
    H = 1.5e308
    for k, (y, z, w) in enumerate(((H, H, H), (-H, -H, 1.0), (H, -H, H), (H, 1.0, 2.0), (1.7e308, 1.0e307, 2.0))):
        for entry, offset in (('solve_t', 0), ('solve_t', -1), ('solve_t', 1), ('solve', 0)):
            fixed = {'exact': True, 'data': {'Y': [y] * 3, 'Z': [z] * 3, 'W': [w] * 3, 'X': [1.0, 2.0, 4.0], 'd': [0.5] * 3},
                     'options': dict(entry=entry, t=rng.choice([1, -2]), min_iter=0, max_iter=4, tol=0.5, failures='ignore', errors='raise', offset=offset)}
            ctx.evaluation((script, k, entry, offset), nontrivial=True)
            ctx.count('huge_finite_starting_guesses')
            one_program(ctx, prog, rng, workdir, f'huge{ctx.shard}', has_literals=False, fixed=fixed)


def blank_period_with_offset(ctx, rng, workdir):
    """The everyday use of `offset`: the period to solve is still blank (NaN, as a fresh model may be), its starting values are
    taken from a neighbouring, finite period - after which every value is finite and stays finite, so the period is solved by
    either back-end whatever the error policy; without an offset the same data are rejected by both."""
    V, B, E, P = gen.Var, gen.Bin, gen.Eq, gen.Program
    prog = P([E(V('Y'), B('+', B('*', V('d', 'param'), V('Y')), V('X'))), E(V('Z'), B('*', V('Y'), V('d', 'param')))])
    script = gen.render_program(prog)
    nan = float('nan')
    for k, (t, offset) in enumerate(((1, -1), (1, 1), (-2, -1), (-2, 1), (1, 0), (2, -2), (0, 2))):
        for errors in ('raise', 'skip', 'ignore', 'replace'):
            y = [1.0, 2.0, 3.0]
            y[t] = nan
            z = [0.5, 1.5, 2.5]
            z[t] = nan if k % 2 else z[t]
            fixed = {'exact': True, 'data': {'Y': y, 'Z': z, 'X': [1.0, 2.0, 4.0], 'd': [0.5] * 3},
                     'options': dict(entry='solve_t', t=t, min_iter=0, max_iter=60, tol=1e-9, failures='ignore', errors=errors, offset=offset)}
            ctx.evaluation((script, 'blank', k, errors), nontrivial=True)
            ctx.count('blank_periods_seeded_by_offset')
            one_program(ctx, prog, rng, workdir, f'blank{ctx.shard}', has_literals=False, fixed=fixed)


def replay(ctx, case):
    workdir = tempfile.mkdtemp(prefix='fsicverif-c07-')
    try:
        prog = gen.from_json(case['program'])
        ctx.evaluation(case['script'], nontrivial=True)
        fixed = {'data': case['data'], 'options': case['options'], 'build_options': case.get('build_options')} if 'data' in case and 'options' in case else None
        one_program(ctx, prog, ctx.rng('c07'), workdir, 'replay', has_literals=any(isinstance(n, gen.Num) for e in prog.equations() for n in e.rhs.walk()), fixed=fixed)
    finally:
        shutil.rmtree(workdir, ignore_errors=True)
