"""C17 - tracing never changes a solution and records it faithfully.

Monitor: twin runs of a tracer-extended class with and without trace=..., compared on
everything observable (all series except the trace itself, return value, exception class
and cause); the harness records the traced variables after every pass through its own
_evaluate hook *below* the mixin in the MRO, and the stored trace is compared label by
label and column by column with that independent recording."""
import math
import warnings

import numpy as np

from . import scripted
from .c05 import call, random_scripts

PROPERTY = 'C17'
LEVEL = 'exploration'
RULE = ('scripted models (per-period outcome scripts incl. NaN/inf/warning/exception faults and hook faults) and parser-built '
        'models, extended with TracerMixin; trace in {True, list of names, single name, False/None}; entry points solve, '
        'solve_period, solve_t (positive/negative t); option lattice of C02/C06; repeated solves; custom TRACE_VARIABLES. '
        'non-trivial = distinct (trace spec, entry, options, scripts) case that performed at least one pass')
ASSUMPTIONS = ['repeated solves of one period use the same trace spec (appending a different-shaped snapshot is a usage error outside the statement)',
               'a call rejected before any pass may still have recorded the "start" snapshot: the trace is not part of the solution']
ANCHORS = [('fsic/extensions/model.py', 'TracerMixin.solve_t'), ('fsic/extensions/model.py', 'TracerMixin.solve_t_before'),
           ('fsic/extensions/model.py', 'TracerMixin._evaluate'), ('fsic/extensions/model.py', 'TracerMixin.solve_t_after'),
           ('fsic/extensions/model.py', 'TracerMixin.trace_t'), ('fsic/extensions/model.py', 'Trace.append'),
           ('fsic/extensions/model.py', 'TracerMixin.__init__')]
REQUIRED_COUNTERS = {'twin_runs_compared': 400, 'trace_snapshots_compared': 1500, 'untraced_runs_checked': 100}
LEVEL_TEXT = ('Twin-run non-interference monitor (traced vs untraced) plus comparison of every stored trace snapshot with the '
              "harness's own per-pass recording, across entry points, trace specs, options and injected faults.")
LEVEL_NOTE = 'Trusted: the scripted workload and the per-pass recorder placed below the mixin in the MRO.'
TECHNIQUE = 'twin-run non-interference monitor + independent per-pass recording compared with the stored trace'


def nshards(tier):
    return 16


_CLASSES = None


def classes():
    global _CLASSES
    if _CLASSES is None:
        _CLASSES = _classes()
    return _CLASSES


def _classes():
    from fsic.extensions import TracerMixin
    Base = scripted.make_model_class()

    class T(TracerMixin, Base):
        pass

    class T2(TracerMixin, Base):
        TRACE_VARIABLES = ['B', 'A']

    class T0(TracerMixin, Base):
        TRACE_VARIABLES = []       # rare but legal: trace=True then records labelled snapshots of zero variables

    return Base, T, T2, T0


def make(cls, n, scripts, tol, before_fault=None, after_fault=None):
    # years, or text labels one of which stands twice (periods are then only told apart by position - which is all tracing needs)
    span = range(2000, 2000 + n) if not DUP['on'] else [f'p{i}' if i != 2 else 'p1' for i in range(n)]
    m = cls(span, tol=tol, X=1.0, before_fault=before_fault, after_fault=after_fault)
    m.__dict__['v_scripts_by_t'] = {k: list(v) for k, v in scripts.items()}
    for i in range(n):
        m.A[i] = 0.25 * i
        m.B[i] = -0.5 * i
    m.__dict__['v_touch_exog'] = TOUCH['on']
    # variables with longer names (one of them spelt from the names of two others): a single name given as a string is one name
    for name, f in EXTRA.items():
        m.add_variable(name, [f(i) for i in range(n)])
    if STRICT['on']:
        m.strict = True        # no new attributes from here on (tracing needs none)
    return m


STRICT = {'on': False}     # whether the models refuse new attributes (set per case)
DUP = {'on': False}        # whether the span repeats a label (set per case)
TOUCH = {'on': False}      # whether the scripted passes also move the exogenous X (set per case)
EXTRA = {'AB': lambda t: 0.125 * t + 7.0, 'Xtra': lambda t: -3.0 - t}


def gv(d, x, t):
    """Value of traced variable x at period t: from the recorded dict, or the constant extra series."""
    return d[x] if x in d else EXTRA[x](t)


def snap(m):
    return {name: np.array(m.__dict__['_' + name]).copy() for name in m.__dict__['index'] if name != 'trace'}


def traced_names(cls, spec):
    if isinstance(spec, str):
        return [spec]
    if isinstance(spec, (list, tuple)):
        return list(spec)
    return list(cls.TRACE_VARIABLES) if cls.TRACE_VARIABLES is not None else ['A', 'B', 'X'] + list(EXTRA)


def trace_image(m):
    """Labels and values of every period's trace (plain Python data)."""
    if 'trace' not in m.__dict__['index']:
        return []
    return [(list(tr.index), repr(np.asarray(tr.values, dtype=float).tolist())) for tr in m['trace']]   # repr: NaN compares equal to itself


def full_check(ctx, cls, n, scripts, opts, spec, entry, arg, tol, faults, case, repeat=1):
    """Traced vs untraced twin + exact expected trace (labels and values)."""
    TOUCH['on'] = bool(case.get('touch_exog'))
    STRICT['on'] = bool(case.get('strict'))
    DUP['on'] = bool(case.get('dup_labels')) and entry == 'solve_t'      # (solve() and solve_period() go by label: first occurrence)
    A = make(cls, n, scripts, tol, *faults)
    # the untraced twin: the same tracer-extended class called without trace=..., or (every other case) the plain
    # model class without the mixin - tracing support must be transparent either way
    B = make(cls if case.get('twin', 'same') == 'same' else classes()[0], n, scripts, tol, *faults)
    names = traced_names(cls, spec)
    expected = {t: ([], []) for t in range(n)}
    strict = opts['errors'] == 'raise' and opts['catch_first_error']
    ended_in_last_rep = set()
    left_behind = []
    for rep in range(repeat):
        ended_in_last_rep = set()
        if rep > 0:
            # between repeated solves: replace whole series (a list assignment rebinds the underlying array), or continue on copies
            how = case.get('interlude', 'none')
            if how.startswith('copy'):
                # the object left behind keeps the trace it had: what a later traced solve of its copy records is not its own
                left_behind.append((A, trace_image(A)))
            if how in ('list-assign', 'copy-then-list-assign'):
                if how.startswith('copy'):
                    A, B = A.copy(), B.copy()
                for obj in (A, B):
                    obj.X = [2.5 + i for i in range(n)]
                    obj.A = tuple(float(v) + 1.0 for v in obj.A)
            elif how == 'copy':
                A, B = A.copy(), B.copy()
        lb0 = len(B.__dict__['v_log'])
        pb0 = len(B.__dict__.get('v_passvals', []))
        pre = {t: {x: float(B.__dict__['_' + x][t]) for x in ('A', 'B', 'X')} for t in range(n)}
        if entry == 'solve':
            ra, rb = call(A.solve, trace=spec, **opts), call(B.solve, **opts)
        elif entry == 'solve_period':
            ra, rb = call(A.solve_period, A.span[arg], trace=spec, **opts), call(B.solve_period, B.span[arg], **opts)
        else:
            targ = np.int64(arg) if case.get('arg_numpy') else arg      # a position taken from a NumPy array is a position
            ra, rb = call(A.solve_t, targ, trace=spec, **opts), call(B.solve_t, targ, **opts)
        ctx.count('twin_runs_compared')
        if ra != rb:
            ctx.violation('tracing-changes-outcome', f'{entry}({arg}, trace={spec!r}, {opts}) -> {ra}; without trace -> {rb}', case)
            return
        diff = scripted.changed_cells(snap(A), snap(B))
        if diff:
            ctx.violation('tracing-changes-solution', f'{entry}({arg}, trace={spec!r}) differs from the untraced run in {sorted(diff)[:8]}', case)
            return
        strip = lambda log: [(x[0], x[1], x[2], {k: v for k, v in x[3].items() if k not in ('trace', 'reset')}) for x in log]  # noqa: E731
        if strip(A.__dict__['v_log']) != strip(B.__dict__['v_log']):
            ctx.violation('tracing-changes-passes', f'hooks/passes (with their keyword arguments) differ: traced {strip(A.__dict__["v_log"])[-4:]} untraced {strip(B.__dict__["v_log"])[-4:]}', case)
            return
        if not spec:
            continue
        rejected_value_error = opts['min_iter'] > opts['max_iter']
        if entry == 'solve':
            visited = [] if rejected_value_error else list(range(n))
        else:
            visited = [arg if arg >= 0 else arg + n]
        blog = B.__dict__['v_log'][lb0:]
        bpass = B.__dict__['v_passvals'][pb0:] if 'v_passvals' in B.__dict__ else []
        final = {t: {x: float(B.__dict__['_' + x][t]) for x in ('A', 'B', 'X')} for t in range(n)}
        running = dict(pre)
        for t in visited:
            labels, cols = expected[t]
            tt = [x for x in blog if (x[1] if x[1] >= 0 else x[1] + n) == t]
            passes = [(it, v) for (pt, it, v) in bpass if (pt if pt >= 0 else pt + n) == t]
            labels.append('start')
            cols.append([gv(pre[t], x, t) for x in names])
            if not any(x[0] == 'before' for x in tt):
                # rejected before the pre-hook (ValueError / IndexError / pre-existing non-finite): stop here
                break
            # values after the optional offset copy
            bv = dict(pre[t])
            off = opts.get('offset', 0)
            if off:
                for x in ('A', 'B'):
                    bv[x] = pre[t + off][x] if t + off != t else bv[x]
                # the source period may itself have been solved earlier in this call
                src = t + off
                if entry == 'solve' and src < t:
                    for x in ('A', 'B'):
                        bv[x] = final[src][x]
            labels.append('before')
            cols.append([gv(bv, x, t) for x in names])
            before_ok = not (faults[0] == 'exc' or (faults[0] == 'warn' and strict))
            if not before_ok:
                break
            labels.append(0)
            cols.append([gv(bv, x, t) for x in names])
            for it, v in passes:
                labels.append(it)
                cols.append([gv(v, x, t) for x in names])
            if any(x[0] == 'after' for x in tt):
                after_ok = not (faults[1] == 'exc' or (faults[1] == 'warn' and strict))
                if after_ok:
                    labels.append('end')
                    ended_in_last_rep.add(t)
                    cols.append([gv(final[t], x, t) for x in names])
                    if str(B.status[t]) == '.' and cols[-1] != cols[-2]:
                        ctx.violation('harness-self-check', 'end snapshot differs from last pass in the harness recording', case)
                else:
                    break
            if str(B.status[t]) not in ('.', 'S', 'F') or (str(B.status[t]) == 'F' and opts['failures'] == 'raise'):
                break   # the call raised here; later periods are not visited
    for obj, image in left_behind:
        ctx.count('left_behind_traces_compared')
        if trace_image(obj) != image:
            bad = [t for t, (x, y) in enumerate(zip(trace_image(obj), image)) if x != y]
            ctx.violation('trace-shared-with-copy', f'after copy() and a traced solve of the copy, the original\'s trace of period {bad[0]} changed from labels {image[bad[0]][0]} to {trace_image(obj)[bad[0]][0]}', case)
            return
    if not spec:
        ctx.count('untraced_runs_checked')
        for t in range(n):
            if not A['trace'][t].is_empty():
                ctx.violation('trace-written-unasked', f'trace={spec!r}: period {t} has a trace {list(A["trace"][t].index)}', case)
                return
        return
    for t in range(n):
        tr = A['trace'][t]
        labels, cols = expected[t]
        ctx.count('trace_snapshots_compared', len(labels))
        if list(tr.index) != labels:
            ctx.violation('trace-labels', f'period {t}: trace labels {list(tr.index)}, expected {labels} (status {A.status[t]!r})', case)
            return
        if not labels:
            continue
        if list(tr.names) != names:
            ctx.violation('trace-names', f'period {t}: trace names {list(tr.names)}, expected {names}', case)
            return
        got = np.asarray(tr.values, dtype=float)
        want = np.array(cols, dtype=float).T
        if got.shape != want.shape or not np.array_equal(got, want, equal_nan=True):
            ctx.violation('trace-values', f'period {t}: trace values {got.tolist()} expected {want.tolist()} for labels {labels}', case)
            return
        if str(A.status[t]) == '.' and labels[-1] == 'end' and t in ended_in_last_rep:
            stored = [float(A[x][t]) for x in names]
            last = got[:, -1].tolist()
            if not all(a == b or (math.isnan(a) and math.isnan(b)) for a, b in zip(stored, last)):
                ctx.violation('trace-end-not-solution', f'period {t}: final snapshot {last} != stored solution {stored}', case)
                return


def run_shard(ctx):
    Base, T, T2, T0 = classes()
    rng = ctx.rng('c17')
    count = ctx.pick(250, 6000)
    for i in range(count):
        n = rng.choice([3, 4, 5])
        cls = rng.choice([T, T, T, T2, T2, T0])
        spec = rng.choice([True, True, ['A'], ['B', 'A'], ['X', 'A', 'B'], 'A', 'B', False, None, 'AB', 'Xtra', ['AB', 'A'], ('B', 'Xtra'),
                           # a flag that is true without being the object True (a NumPy boolean out of a mask, the integer 1), or false (0)
                           np.True_, 1, np.False_, 0])
        entry = rng.choice(['solve', 'solve', 'solve_t', 'solve_t', 'solve_period'])
        arg = None if entry == 'solve' else (rng.randrange(-n, n) if entry == 'solve_t' else rng.randrange(n))
        fault_at = rng.choice([None, None] + list(range(n)))
        fault = rng.choice(['nan', 'pinf', 'warn', 'exc', 'nonconv'])
        scripts = random_scripts(rng, n, fault_at, fault if fault_at is not None else None)
        opts = dict(min_iter=rng.choice([0, 0, 1, 3]), max_iter=rng.choice([0, 1, 4, 8]), tol=rng.choice([0.5, 0.5, 1e-10]),
                    failures=rng.choice(['raise', 'ignore']), errors=rng.choice(['raise', 'skip', 'ignore', 'replace']),
                    catch_first_error=rng.choice([True, False]))
        if rng.random() < 0.15:
            opts['offset'] = rng.choice([-1, 1])
        if rng.random() < 0.3:
            opts['custom_keyword'] = rng.choice([7, 'x'])
        faults = (None, None)
        r = rng.random()
        if r < 0.07:
            faults = (rng.choice(['exc', 'warn']), None)
        elif r < 0.14:
            faults = (None, rng.choice(['exc', 'warn']))
        repeat = 2 if rng.random() < 0.3 else 1
        interlude = rng.choice(['none', 'list-assign', 'copy', 'copy-then-list-assign'])
        case = dict(n=n, cls=cls.__name__, trace=spec, entry=entry, arg=arg, arg_numpy=(entry == 'solve_t' and rng.random() < 0.3), touch_exog=rng.random() < 0.3, dup_labels=rng.random() < 0.2, opts=opts, faults=list(faults), repeat=repeat, interlude=interlude, twin=rng.choice(['same', 'plain']), strict=rng.random() < 0.25,
                    scripts={str(k): v for k, v in scripts.items()})
        ctx.evaluation(case, nontrivial=True, sample=case)
        ctx.seen('trace_specs', repr(spec))
        ctx.seen('entries', entry)
        full_check(ctx, cls, n, scripts, opts, spec, entry, arg, opts['tol'], faults, case, repeat)
    # long traces: one period solved over far more passes than usual, and one period re-solved many times with reset=False
    # (a trace is faithful whatever its length)
    for k, (cls, spec, passes, repeat) in enumerate([(T, True, 140, 1), (T2, True, 135, 1), (T, ['B', 'A', 'X'], 150, 1), (T, ['A', 'B'], 30, 6), (T2, 'A', 200, 1), (T, True, 12, 14)]):
        if not ctx.mine(k):
            continue
        n = 3
        scripts = {t: [('big', 'same')] * passes for t in range(n)}
        opts = dict(min_iter=0, max_iter=passes + 10, tol=0.5, failures='ignore', errors='ignore', catch_first_error=True)
        case = dict(n=n, cls=cls.__name__, trace=spec, entry='solve_t', arg=1, arg_numpy=False, touch_exog=False, opts=opts, faults=[None, None], repeat=repeat, interlude='none',
                    twin='same', scripts={str(t): v for t, v in scripts.items()})
        ctx.evaluation(('long-trace', k), nontrivial=True, sample={'long_trace': k, 'passes': passes, 'repeat': repeat})
        ctx.count('long_trace_cases')
        full_check(ctx, cls, n, scripts, opts, spec, 'solve_t', 1, 0.5, (None, None), case, repeat)
    parser_models(ctx)
    integer_models(ctx)
    if ctx.shard == 0:
        renamed_trace(ctx)
        late_variable(ctx)
    if ctx.shard == 0:
        # tracer next to the alias extension: a trace asked for by alias is a trace of that variable (twin traced by the variables' own names)
        from . import c18
        c18.traced_aliases(ctx, c18.canon_class(), ctx.rng('c17-alias'), every=True)


def parser_models(ctx):
    import fsic
    from fsic.extensions import TracerMixin
    rng = ctx.rng('c17-parser')
    scripts = ['Y = C + G\nC = {c} * Y[0]', 'Y = 0.5 * Y[-1] + X\nZ = Y * 2', 'A = log(X)\nB = A + 1',
               # variables named like members of the model object (a property, two methods)
               'size = copy + eval\ncopy = 0.5 * size[0]', 'values = 0.5 * values[-1] + solve\nnbytes = values * 2']
    for k, script in enumerate(scripts):
        if not ctx.mine(k):
            continue
        Model = fsic.build_model(fsic.parse_model(script))

        class R(Model):
            def _evaluate(self, t, **kw):
                super()._evaluate(t, **kw)
                self.__dict__.setdefault('v_passvals', []).append((t, kw.get('iteration'), {x: float(self[x][t]) for x in self.names}))

        class TR(TracerMixin, R):
            pass

        for rep in range(ctx.pick(20, 200)):
            n = Model.LAGS + 4
            spec = rng.choice([True, list(Model.ENDOGENOUS), Model.NAMES[-1]])
            data = {nm: rng.choice([0.5, 1.0, 2.0]) for nm in Model.NAMES if nm not in Model.ENDOGENOUS}
            if rng.random() < 0.2 and 'X' in data:
                data['X'] = 0.0   # log(0): natural fault
            opts = dict(max_iter=rng.choice([3, 60]), errors=rng.choice(['raise', 'skip', 'ignore']), failures='ignore', tol=1e-6)
            A, B = TR(range(n), **data), TR(range(n), **data)
            case = dict(kind='parser', script=script, trace=spec, data=data, opts=opts)
            ctx.evaluation(case, nontrivial=True, sample=case)
            ra, rb = call(A.solve, trace=spec, **opts), call(B.solve, **opts)
            ctx.count('twin_runs_compared')
            if ra != rb or scripted.changed_cells(snap(A), snap(B)):
                ctx.violation('tracing-changes-solution', f'parser model {script!r}: traced {ra} vs untraced {rb}', case)
                continue
            names = [spec] if isinstance(spec, str) else (list(spec) if isinstance(spec, list) else list(Model.NAMES))
            pv = {}
            for t, it, v in B.__dict__.get('v_passvals', []):
                pv.setdefault(t, []).append((it, v))
            for t in range(n):
                tr = A['trace'][t]
                if t not in pv and str(A.status[t]) == '-':
                    if not tr.is_empty() and list(tr.index) not in (['start'], ['start', 'before', 0]):
                        ctx.violation('trace-written-unasked', f'unsolved period {t} has trace {list(tr.index)}', case)
                    continue
                passes = pv.get(t, [])
                want = ['start', 'before', 0] + [it for it, _ in passes] + (['end'] if str(A.status[t]) == '.' else [])
                ctx.count('trace_snapshots_compared', len(want))
                if list(tr.index) != want:
                    ctx.violation('trace-labels', f'parser model period {t}: labels {list(tr.index)} expected {want}', case)
                    break
                got = np.asarray(tr.values, dtype=float)
                for j, (it, v) in enumerate(passes):
                    col = got[:, 3 + j].tolist()
                    w = [v[x] for x in names]
                    if not all(a == b or (math.isnan(a) and math.isnan(b)) for a, b in zip(col, w)):
                        ctx.violation('trace-values', f'parser model period {t} pass {it}: snapshot {col}, recorded {w}', case)
                        break
                if str(A.status[t]) == '.':
                    stored = [float(A[x][t]) for x in names]
                    if not all(a == b or (math.isnan(a) and math.isnan(b)) for a, b in zip(got[:, -1].tolist(), stored)):
                        ctx.violation('trace-end-not-solution', f'parser model period {t}: end {got[:, -1].tolist()} stored {stored}', case)


def late_variable(ctx):
    """trace=True records *the model's variables*: those of the object being solved at the time of the call - a variable added to a
    copy after the original was traced is in the copy's later snapshots, and a sibling instance of the same class with other
    variables is traced by its own."""
    import fsic
    from fsic.extensions import TracerMixin
    Model = fsic.build_model(fsic.parse_model('Y = 0.5 * Y[-1] + G\nZ = Y * 2'))

    class TM(TracerMixin, Model):
        pass

    for strict in (False, True):
        for how in ('copy', 'same-object', 'sibling'):
            case = dict(kind='late-variable', strict=strict, how=how)
            ctx.evaluation(case, nontrivial=True, sample=case)
            A, B = TM(range(2000, 2006), G=3.0, strict=strict), Model(range(2000, 2006), G=3.0, strict=strict)
            ra, rb = call(A.solve_t, 1, trace=True, max_iter=60), call(B.solve_t, 1, max_iter=60)
            if how == 'copy':
                A, B = A.copy(), B.copy()
            elif how == 'sibling':
                A, B = TM(range(2000, 2006), G=3.0, strict=strict), Model(range(2000, 2006), G=3.0, strict=strict)
                A.Y[1], B.Y[1] = 5.0, 5.0
            for obj in (A, B):
                obj.add_variable('Late', 7.5)
            r2a, r2b = call(A.solve_t, 2, trace=True, max_iter=60), call(B.solve_t, 2, max_iter=60)
            ctx.count('twin_runs_compared')
            if repr((ra, r2a)) != repr((rb, r2b)) or any(A[x].tolist() != B[x].tolist() for x in B.names) or list(A.status) != list(B.status):
                ctx.violation('tracing-changes-outcome', f'{how}, strict={strict}: traced {str((ra, r2a))[:160]}; untraced {str((rb, r2b))[:160]}', case)
                return
            tr = A['trace'][2]
            ctx.count('trace_snapshots_compared', len(tr.index))
            if list(tr.names) != list(A.names):
                ctx.violation('trace-names', f'{how}, strict={strict}: trace=True after add_variable("Late") recorded {list(tr.names)}; the model\'s variables are {list(A.names)}', case)
                return
            if list(tr.index)[:3] != ['start', 'before', 0] or tr.index[-1] != 'end':
                ctx.violation('trace-labels', f'{how}, strict={strict}: period 2 trace labels {list(tr.index)}', case)
                return


def renamed_trace(ctx):
    """A class that keeps its traces under another name (TRACE_NAME) - the documented way out when the model has a variable called
    'trace' of its own: tracing still changes nothing about the solution, and the snapshots are where the class says."""
    import fsic
    from fsic.extensions import TracerMixin
    Model = fsic.build_model(fsic.parse_model('Y = 0.5 * Y[-1] + trace\nZ = Y * 2'))

    class TH(TracerMixin, Model):
        TRACE_NAME = 'history'

    class PH(Model):
        pass

    for entry in ('solve', 'solve_t', 'solve_period'):
        for spec in (True, ['Y'], 'Z'):
            case = dict(kind='renamed-trace', entry=entry, trace=spec)
            ctx.evaluation(case, nontrivial=True, sample=case)
            A, B = TH(range(2000, 2005), trace=3.0), PH(range(2000, 2005), trace=3.0)
            args = {'solve': (), 'solve_t': (2,), 'solve_period': (2002,)}[entry]
            ra, rb = call(getattr(A, entry), *args, trace=spec, failures='ignore', max_iter=40), call(getattr(B, entry), *args, failures='ignore', max_iter=40)
            ctx.count('twin_runs_compared')
            if repr(ra) != repr(rb) or any(A[x].tolist() != B[x].tolist() for x in Model.NAMES) or list(A.status) != list(B.status):
                ctx.violation('tracing-changes-outcome', f'class with TRACE_NAME = "history": {entry}(trace={spec!r}) -> {str(ra)[:120]}; without tracing -> {str(rb)[:120]}', case)
                return
            tr = A['history'][2]
            ctx.count('trace_snapshots_compared', len(tr.index))
            if list(tr.index)[:3] != ['start', 'before', 0] or (str(A.status[2]) == '.' and tr.index[-1] != 'end'):
                ctx.violation('trace-labels', f'class with TRACE_NAME = "history": period 2 trace labels {list(tr.index)}', case)
                return


def integer_models(ctx):
    """Models whose variables are integers too large for float64 (unique ids above 2**53): a snapshot holds those values, not
    their nearest floats."""
    import fsic
    from fsic.extensions import TracerMixin
    rng = ctx.rng('c17-int')
    Model = fsic.build_model(fsic.parse_model('Y = X + 1\nZ = Y[-1] + X * 2'))

    class R(Model):
        def _evaluate(self, t, **kw):
            super()._evaluate(t, **kw)
            self.__dict__.setdefault('v_passvals', []).append((t, kw.get('iteration'), {x: int(self[x][t]) for x in self.names}))

    class TR(TracerMixin, R):
        pass

    big = 2 ** 53 + 1
    for rep in range(ctx.pick(6, 40)):
        n = 5
        spec = rng.choice([True, ['Y', 'Z'], 'Z', ['X']])
        xs = [rng.choice([1, -1]) * (big + 2 * rng.randrange(1000)) for _ in range(n)]
        entry = rng.choice(['solve', 'solve_t', 'solve_period'])
        case = dict(kind='integer-model', trace=spec, X=xs, entry=entry)
        ctx.evaluation(case, nontrivial=True, sample=case)
        A, B = TR(range(n), dtype=int, X=xs), TR(range(n), dtype=int, X=xs)
        if entry == 'solve':
            ra, rb = call(A.solve, trace=spec), call(B.solve)
        elif entry == 'solve_t':
            ra, rb = [call(A.solve_t, t, trace=spec) for t in range(1, n)], [call(B.solve_t, t) for t in range(1, n)]
        else:
            ra, rb = [call(A.solve_period, t, trace=spec) for t in range(1, n)], [call(B.solve_period, t) for t in range(1, n)]
        ctx.count('twin_runs_compared')
        if ra != rb or any(A[x].tolist() != B[x].tolist() for x in Model.NAMES) or list(A.status) != list(B.status):
            ctx.violation('tracing-changes-solution', f'integer model: traced {ra} vs untraced {rb}', case)
            continue
        names = [spec] if isinstance(spec, str) else (list(spec) if isinstance(spec, list) else list(Model.NAMES))
        pv = {}
        for t, it, v in B.__dict__.get('v_passvals', []):
            pv.setdefault(t, []).append((it, v))
        for t in range(1, n):
            tr = A['trace'][t]
            passes = pv.get(t, [])
            ctx.count('trace_snapshots_compared', len(passes) + 1)
            got = np.asarray(tr.values)
            for j, (it, v) in enumerate(passes):
                col = [int(x) if float(x) == int(x) else x for x in got[:, 3 + j].tolist()]
                w = [v[x] for x in names]
                if col != w:
                    ctx.violation('trace-values', f'integer model period {t} pass {it}: snapshot holds {col} ({got.dtype}), the model held {w}', case)
                    break
            else:
                stored = [int(A[x][t]) for x in names]
                end = [int(x) if float(x) == int(x) else x for x in got[:, -1].tolist()]
                if str(A.status[t]) == '.' and end != stored:
                    ctx.violation('trace-end-not-solution', f'integer model period {t}: final snapshot {end} ({got.dtype}), stored solution {stored}', case)
                continue
            break


def replay(ctx, case):
    if case.get('kind') == 'parser':
        ctx.inconclusive_because('parser cases: re-run the shard with the same VERIF_SEED')
        return
    Base, T, T2, T0 = classes()
    cls = {'T': T, 'T2': T2, 'T0': T0}[case['cls']]
    scripts = {int(k): [tuple(p) for p in v] for k, v in case['scripts'].items()}
    ctx.evaluation(case, nontrivial=True)
    full_check(ctx, cls, case['n'], scripts, case['opts'], case['trace'], case['entry'], case['arg'], case['opts']['tol'], tuple(case['faults']), case, case['repeat'])
