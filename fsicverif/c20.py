"""C20 - the dependency graph reports exactly the dependencies the equations have.

Monitor: (1) the graph's nodes/edges against the dependency sets of the generated AST;
(2) dynamic confirmation: for every endogenous y, its statement (Symbol.code) is
evaluated in isolation under recording arrays on random data - every read must be an
in-edge of y, every in-edge must actually be read (over the union of branch-flipping
data for conditional equations), and perturbing any cell without an edge into y must
leave y's result unchanged."""
import warnings

import numpy as np

from . import gen, rec, ref
from .c01 import parser_errors

PROPERTY = 'C20'
LEVEL = 'exploration'
RULE = ('random C01-grammar programs (no fenced blocks; partial verbatim fragments at low rate); for each program the graph is compared '
        'with the AST dependency sets, then every endogenous statement is evaluated in isolation at a feasible position on several '
        'data vectors under recording arrays and every (variable, position) cell of the model is perturbed in turn. '
        'non-trivial = distinct script with at least one right-hand-side term')
ASSUMPTIONS = ['variable-like nodes are those of the form NAME[...]; function names, keywords and verbatim fragments are other nodes and are ignored',
               'for conditional equations reads must be a subset of the in-edges on every evaluation and cover them over the union of data vectors; '
               'a term whose branch could not be reached is counted, never reported',
               'equations containing verbatim fragments are excluded from the no-influence clause']
ANCHORS = [('fsic/tools.py', 'symbols_to_graph')]
REQUIRED_COUNTERS = {'multi_target_graphs': 20, 'graphs_compared': 150, 'edges_compared': 500, 'isolated_evaluations': 500, 'perturbations': 3000, 'reads_checked': 1000}
LEVEL_TEXT = ('Reference dependency sets from the AST compared with the graph, and dynamic confirmation by perturbation and recorded reads on the built model.')
LEVEL_NOTE = 'Trusted: AST term enumeration in fsicverif/gen.py; recording arrays.'
TECHNIQUE = 'reference dependency sets + perturbation / recorded-read monitor'


def nshards(tier):
    return 16


def node_name(tm):
    if isinstance(tm, gen.Var):
        return f'{tm.name}[t{gen.offset_text(tm.off)}]'
    key = tm.label if tm.style == '`' else f'{tm.style}{tm.label}{tm.style}'
    return f'{tm.name}[{key}]'


def varlike(n):
    return isinstance(n, str) and '[' in n and n.endswith(']') and not n.startswith('`')


def one_program(ctx, prog, script, rng):
    import fsic
    from fsic import tools
    case = {'script': script, 'program': gen.to_json(prog)}
    ex = gen.classify(prog)
    try:
        symbols = fsic.parse_model(script)
    except parser_errors():
        ctx.count('program_rejected')
        return
    if ex.reject:
        return
    symbols_image = list(symbols)
    try:
        G = tools.symbols_to_graph(symbols)
    except Exception as e:
        ctx.violation('graph-raises', f'symbols_to_graph raised {type(e).__name__}: {e}', case)
        return
    ctx.count('graphs_compared')
    if list(symbols) != symbols_image:
        ctx.violation('argument-mutated', 'symbols_to_graph changed the symbol list it was given', case)
        return
    eqs = gen.execution_order(prog)
    by_name = {s.name: s for s in symbols if s.type.name == 'ENDOGENOUS'}
    want_nodes = set()
    want_edges = set()
    for e in eqs:
        y = node_name(e.lhs)
        want_nodes.add(y)
        for tm in list(e.terms())[1:]:
            want_nodes.add(node_name(tm))
            want_edges.add((node_name(tm), y))
    got_nodes = {n for n in G.nodes if varlike(n)}
    got_edges = {(a, b) for a, b in G.edges if varlike(a) and varlike(b)}
    ctx.count('edges_compared', len(want_edges))
    if got_nodes != want_nodes:
        ctx.violation('graph-nodes', f'variable-like nodes {sorted(got_nodes ^ want_nodes)} differ (graph: {sorted(got_nodes)}, script: {sorted(want_nodes)})', case)
        return
    if got_edges != want_edges:
        ctx.violation('graph-edges', f'edges differ: only in graph {sorted(got_edges - want_edges)}, only in script {sorted(want_edges - got_edges)}', case)
        return
    for e in eqs:
        y = node_name(e.lhs)
        attr = G.nodes[y].get('equation')
        if attr != by_name[e.lhs.name].equation:
            ctx.violation('graph-node-equation', f'node {y} carries equation {attr!r}, symbol has {by_name[e.lhs.name].equation!r}', case)
            return
    for n in G.nodes:
        if varlike(n) and n not in {node_name(e.lhs) for e in eqs} and 'equation' in G.nodes[n]:
            ctx.violation('graph-node-equation', f'right-hand-side-only node {n} carries an equation attribute', case)
            return
    # ---- every call yields the graph of its argument: changing a returned graph does not reach later calls --------
    all_nodes, all_edges = {repr(n): dict(G.nodes[n]) for n in G.nodes}, {(repr(a), repr(b)) for a, b in G.edges}
    G.remove_nodes_from([n for n in list(G.nodes) if varlike(n)][::2])
    G.add_edge('Zz[t]', 'Qq[t]')
    try:
        G2 = tools.symbols_to_graph(fsic.parse_model(script))
        G3 = tools.symbols_to_graph(symbols)
    except Exception as e:
        ctx.violation('graph-raises', f'second symbols_to_graph call raised {type(e).__name__}: {e}', case)
        return
    ctx.count('repeat_calls_compared')
    for H in (G2, G3):
        if H is G or {repr(n): dict(H.nodes[n]) for n in H.nodes} != all_nodes or {(repr(a), repr(b)) for a, b in H.edges} != all_edges:
            ctx.violation('graph-carries-state-across-calls', f'after the first returned graph was modified by its caller, symbols_to_graph on the same symbols returns '
                          f'{"the same object" if H is G else "a different graph"}: nodes {sorted(map(repr, H.nodes))[:8]}', case)
            return
    # ---- the symbols may arrive in any iterable: a tuple, an iterator, a generator that filters lazily -----------------------
    for how, arg in (('tuple', tuple(symbols)), ('iterator', iter(list(symbols))), ('generator', (s_ for s_ in symbols))):
        try:
            H = tools.symbols_to_graph(arg)
        except Exception as e:
            ctx.violation('graph-raises', f'symbols_to_graph on a {how} of the same symbols raised {type(e).__name__}: {e}', case)
            return
        ctx.count('iterable_argument_kinds_compared')
        if {repr(n): dict(H.nodes[n]) for n in H.nodes} != all_nodes or {(repr(a), repr(b)) for a, b in H.edges} != all_edges:
            ctx.violation('graph-depends-on-argument-type', f'symbols_to_graph on a {how} of the same symbols gives {len(H.nodes)} nodes / {len(H.edges)} edges; '
                          f'on the list {len(all_nodes)} / {len(all_edges)}', case)
            return
    # ---- dynamic confirmation --------------------------------------------------------------------
    if 'named' in ex.features:
        return
    try:
        Model = fsic.build_model(symbols)
    except Exception:
        return
    names = list(Model.NAMES)
    L, D = ex.lags, ex.leads
    n = L + D + 2
    p = L
    for e in eqs:
        y = e.lhs
        sym = by_name[y.name]
        has_verbatim = e.has(gen.Verb)
        conditional = e.has(gen.IfExp) or e.has(gen.Bool)
        in_edges = {(a.split('[')[0], offset_of(a)) for a, b in got_edges if b == node_name(y)}
        code = compile(sym.code, '<statement>', 'exec')
        union_reads = set()
        for di in range(4 if conditional else 2):
            data = ref.make_data(names, n, rng, ['generic', 'positive', 'ints', 'small'][di])
            m = Model(range(n))
            for nm in names:
                m.__dict__['_' + nm][:] = data[nm]
            log = rec.install(m)
            env = {'self': m, 't': p, 'np': np}
            with ref.quiet():
                try:
                    exec(code, env)
                except Exception:
                    ctx.count('isolated_evaluation_raised')
                    continue
            log.enabled = False
            ctx.count('isolated_evaluations')
            reads = {(nm, int(i) - p) for k, nm, i in log if k == 'r'}
            ctx.count('reads_checked', len(reads))
            union_reads |= reads
            if not has_verbatim and not reads <= in_edges:
                ctx.violation('read-without-edge', f'evaluating {sym.code!r} read {sorted(reads - in_edges)} which have no edge into {node_name(y)} (in-edges {sorted(in_edges)})', case)
                return
            if not conditional and not has_verbatim and reads != in_edges:
                ctx.violation('edge-never-read', f'evaluating {sym.code!r} read {sorted(reads)}, the graph has in-edges {sorted(in_edges)}', case)
                return
            if has_verbatim:
                continue
            base = float(rec.plain(m, y.name)[p + y.off])
            # perturb every cell without an edge into y
            for nm in names:
                for q in range(n):
                    if (nm, q - p) in in_edges:
                        continue
                    m2 = Model(range(n))
                    for x in names:
                        m2.__dict__['_' + x][:] = data[x]
                    m2.__dict__['_' + nm][q] += 1.75
                    with ref.quiet():
                        try:
                            exec(code, {'self': m2, 't': p, 'np': np})
                        except Exception:
                            continue
                    ctx.count('perturbations')
                    got = float(m2.__dict__['_' + y.name][p + y.off])
                    if nm == y.name and q == p + y.off:
                        pass   # the cell being assigned
                    if not (got == base or (got != got and base != base)):
                        ctx.violation('influence-without-edge', f'perturbing {nm}[{q}] (offset {q - p}) changed {node_name(y)} from {base} to {got} although the graph has no edge {nm}[t{gen.offset_text(q - p)}] -> {node_name(y)}', case)
                        return
        if conditional and not has_verbatim:
            missing = in_edges - union_reads
            if missing:
                ctx.count('conditional_terms_unreached', len(missing))


def script_names(eqs):
    return {tm.name for e in eqs for tm in e.terms()}


def multi_target(ctx, prog, rng):
    """A statement with several left-hand-side terms (`A, B = e1, e2`): one node per left-hand-side term, each
    carrying the equation, each with an edge from every right-hand-side term of that equation; dynamically, the
    statement reads exactly those terms and no other cell influences either target."""
    import fsic
    from fsic import tools
    eqs = [e for e in prog.equations() if not e.has(gen.Verb) and not e.has(gen.Named)]
    if len(prog.stmts) != len(list(prog.equations())) or len(eqs) != len(prog.stmts):
        return
    k = rng.choice([2, 2, 3])
    if len(eqs) < k or len({e.lhs.name for e in eqs}) != len(eqs):
        return
    lay = gen.Layout(None)
    merged, rest = eqs[:k], eqs[k:]
    line = ', '.join(gen.render_var(e.lhs, 'script', lay) for e in merged) + ' = ' + ', '.join('(' + gen.render(e.rhs, 'script', lay) + ')' for e in merged)
    # the statement stands anywhere in the script, possibly after an equation that already uses every one of its targets
    others = [gen.render_eq(e, 'script') for e in rest]
    at = rng.randrange(len(others) + 1)
    lines = others[:at] + [line] + others[at:]
    if rng.random() < 0.5 and 'ZZsum' not in script_names(eqs):
        lines.insert(0, 'ZZsum = ' + ' + '.join(gen.render_var(e.lhs, 'script', lay) for e in merged))
    script = '\n'.join(lines)
    case = {'script': script, 'multi_target': True}
    ctx.evaluation(script, nontrivial=True, sample={'script': script})
    try:
        symbols = fsic.parse_model(script)
        G = tools.symbols_to_graph(symbols)
        Model = fsic.build_model(symbols)
    except parser_errors():
        ctx.count('program_rejected')
        return
    ctx.count('multi_target_graphs')
    rhs_terms = {node_name(tm) for e in merged for tm in list(e.terms())[1:]}
    by_name = {x.name: x for x in symbols if x.type.name == 'ENDOGENOUS'}
    for e in merged:
        y = node_name(e.lhs)
        if y not in G.nodes or G.nodes[y].get('equation') != by_name[e.lhs.name].equation:
            ctx.violation('graph-node-equation', f'left-hand-side term {y} of {line!r} is not a node carrying the equation', case)
            return
        got = {a for a, b in G.edges if b == y and varlike(a)}
        if got != rhs_terms:
            ctx.violation('graph-edges', f'edges into {y} of the multi-target statement {line!r}: only in graph {sorted(got - rhs_terms)}, only in script {sorted(rhs_terms - got)}', case)
            return
    ex_l = max([0] + [-tm.off for e in eqs for tm in e.terms()])
    ex_d = max([0] + [tm.off for e in eqs for tm in e.terms()])
    n, p = ex_l + ex_d + 2, ex_l
    names = list(Model.NAMES)
    code = compile(by_name[merged[0].lhs.name].code, '<statement>', 'exec')
    conditional = any(e.has(gen.IfExp) or e.has(gen.Bool) for e in merged)
    in_edges = {(a.split('[')[0], offset_of(a)) for a in rhs_terms}
    data = ref.make_data(names, n, rng, 'positive')

    def run(perturb=None):
        m = Model(range(n))
        for nm in names:
            m.__dict__['_' + nm][:] = data[nm]
        if perturb:
            m.__dict__['_' + perturb[0]][perturb[1]] += 1.75
        log = rec.install(m) if perturb is None else None
        with ref.quiet():
            exec(code, {'self': m, 't': p, 'np': np})
        if log is not None:
            log.enabled = False
        return m, log

    try:
        m, log = run()
    except Exception:
        ctx.count('isolated_evaluation_raised')
        return
    ctx.count('isolated_evaluations')
    reads = {(nm, int(i) - p) for kk, nm, i in log if kk == 'r'}
    if not reads <= in_edges or (not conditional and reads != in_edges):
        ctx.violation('edge-never-read' if reads <= in_edges else 'read-without-edge', f'evaluating {line!r} read {sorted(reads)}, the graph has in-edges {sorted(in_edges)}', case)
        return
    base = {e.lhs.name: float(rec.plain(m, e.lhs.name)[p + e.lhs.off]) for e in merged}
    targets = {(e.lhs.name, p + e.lhs.off) for e in merged}
    for nm in names:
        for q in range(n):
            if (nm, q - p) in in_edges or (nm, q) in targets:
                continue
            try:
                m2, _ = run((nm, q))
            except Exception:
                continue
            ctx.count('perturbations')
            for e in merged:
                got = float(m2.__dict__['_' + e.lhs.name][p + e.lhs.off])
                b = base[e.lhs.name]
                if not (got == b or (got != got and b != b)):
                    ctx.violation('influence-without-edge', f'perturbing {nm}[{q}] changed {node_name(e.lhs)} although the graph has no such edge ({line!r})', case)
                    return


def offset_of(node):
    inner = node.split('[', 1)[1][:-1]
    if inner == 't':
        return 0
    return int(inner[1:])


def run_shard(ctx):
    rng = ctx.rng('c20')
    rp = gen.RandomPrograms(rng, max_depth=3, max_eqs=4, max_names=6, big_offsets=False,
                            allow=('num', 'neg', 'bin', 'paren', 'call1', 'call2', 'cmp', 'ifexp', 'bool', 'verb', 'named'))
    rp.keyword_rate = 0.15
    for i in range(ctx.pick(80, 2000)):
        prog = rp.program()
        lay = gen.Layout(rng, noise=rng.choice([0.0, 0.3]), breaks=rng.choice([0.0, 0.2]), tight=rng.random() < 0.35)
        script = gen.render_program(prog, lay)
        nterms = sum(len(list(e.terms())) - 1 for e in prog.equations())
        ctx.evaluation(script, nontrivial=nterms > 0, sample={'script': script})
        one_program(ctx, prog, script, rng)
        multi_target(ctx, prog, rng)
    # big programs (tens of equations over tens of names)
    big = gen.big_programs(rng, allow=('num', 'neg', 'bin', 'paren', 'call1', 'cmp', 'ifexp'))
    for i in range(ctx.pick(1, 15)):
        prog = big.program()
        script = gen.render_program(prog)
        ctx.evaluation(script, nontrivial=True, sample={'script': script[:300], 'kind': 'big'})
        ctx.count('big_programs')
        one_program(ctx, prog, script, rng)
    V, N, B, E, P = gen.Var, gen.Num, gen.Bin, gen.Eq, gen.Program
    corner = [P([E(V('Y'), B('+', V('Y', off=-1), N('1')))]), P([E(V('Y'), B('+', V('Y'), V('X')))]), P([E(V('Y', off=-1), V('X', off=1))]),
              P([E(V('Y'), B('*', V('a', 'param', 0), V('e', 'error', -2))), E(V('Z'), V('Y', off=-1))]), P([E(V('Y'), N('3'))])]
    for k, prog in enumerate(corner):
        if ctx.mine(k):
            script = gen.render_program(prog)
            ctx.evaluation(script, nontrivial=True)
            one_program(ctx, prog, script, rng)


def replay(ctx, case):
    if case.get('multi_target'):
        ctx.inconclusive_because('multi-target cases are replayed by re-running the shard with the same VERIF_SEED')
        return
    ctx.evaluation(case['script'], nontrivial=True)
    one_program(ctx, gen.from_json(case['program']), case['script'], ctx.rng('c20'))
