"""C18 - an alias is indistinguishable from the variable it names.

Monitor: twin histories.  The same operation sequence is applied to an alias-extended
model through randomly chosen names/aliases and to a plain twin through canonical names;
snapshots are compared after every step (non-interference of naming).  The constructor
runs under a sys.monitoring step budget (bounded restatement of "terminates", decided on
logical steps); exports with use_aliases=True are compared column by column with the
plain export."""
import itertools
import os
import warnings

import numpy as np

from . import common, mon, snap

PROPERTY = 'C18'
LEVEL = 'exploration'
RULE = ('alias maps over 3 model variables with up to 4 alias names: every map from a bounded enumeration incl. many-to-one, chains up '
        'to length 3, self-maps, aliases of aliases, cycles (constructor budget only) x PREFERRED_NAMES subsets; per map random '
        'operation histories (reads, whole-series / positional / label / label-slice writes, replace_values, constructor keywords, '
        'solve, export) performed through random names vs a canonical twin. non-trivial = distinct (alias map, preferred names, history)')
ASSUMPTIONS = ['alias names are disjoint from variable names except for self-maps', 'aliases point (directly or through a chain) to existing variables',
               'with no PREFERRED_NAMES at all an aliased variable is exported under one of its aliases (any of them); with PREFERRED_NAMES, a variable without a stated preference may keep its own name']
ANCHORS = [('fsic/extensions/common.py', 'AliasMixin.__init__'), ('fsic/extensions/common.py', 'AliasMixin._resolve_alias'),
           ('fsic/extensions/common.py', 'AliasMixin.__getattr__'), ('fsic/extensions/common.py', 'AliasMixin.__setattr__'),
           ('fsic/extensions/common.py', 'AliasMixin.__getitem__'), ('fsic/extensions/common.py', 'AliasMixin.__setitem__'),
           ('fsic/extensions/common.py', 'AliasMixin.to_dataframe')]
REQUIRED_COUNTERS = {'constructors_under_budget': 200, 'twin_steps_compared': 1500, 'exports_compared': 200}
LEVEL_TEXT = ('Twin-history monitor (aliased vs canonical) with snapshot comparison after every operation, a logical-step budget on the '
              'constructor, and column-by-column comparison of aliased exports.')
LEVEL_NOTE = 'Trusted: snapshot code, the canonical twin. Bounded by 3 variables / 4 alias names / history length 10.'
TECHNIQUE = 'twin-history non-interference monitor + sys.monitoring step budget (runtime monitor)'
VARS = ['Y', 'C', 'G']
ALIAS_NAMES = ['GDP', 'Cons', 'Out', 'Gov', '_gdp', '__mpc', 'x', 'YY']
BUDGET = 20000


def nshards(tier):
    return 16


def canon_class():
    import fsic
    return fsic.build_model(fsic.parse_model('Y = C + G\nC = 0.5 * Y[-1] + 1'))


def aliased_class(Canon, aliases, preferred):
    from fsic.extensions import AliasMixin
    k0, v0 = next(iter(aliases.items())) if aliases else (None, None)
    if len(aliases) >= 2 and k0 != v0 and sum(map(len, aliases)) % 3 == 0 and not any(resolve(aliases, a) is None for a in aliases):
        # the class under test extends the alias map of a parent alias class that has already been instantiated: each class
        # follows its own ALIASES
        first = dict(list(aliases.items())[:1])

        class P(AliasMixin, Canon):
            ALIASES = first
        try:
            P(range(2000, 2003))
        except Exception:
            pass

        class A(P):
            ALIASES = dict(aliases)
            PREFERRED_NAMES = list(preferred)
        return A

    class A(AliasMixin, Canon):
        ALIASES = dict(aliases)
        PREFERRED_NAMES = list(preferred)
    return A


def resolve(aliases, name, limit=10):
    seen = []
    while name in aliases and aliases[name] != name and limit:
        seen.append(name)
        name = aliases[name]
        limit -= 1
        if name in seen:
            return None   # cycle
    return name


def alias_maps(rng, count):
    """Maps alias -> target; targets are variables or other aliases (chains), plus self-maps."""
    out = [{}, {'GDP': 'Y'}, {'GDP': 'Y', 'Out': 'GDP'}, {'GDP': 'Y', 'Out': 'GDP', 'Gov': 'Out'}, {'GDP': 'Y', 'Cons': 'Y'},
           {'Y': 'Y'}, {'GDP': 'Y', 'Y': 'Y'}, {'GDP': 'GDP'}, {'Cons': 'C', 'Gov': 'G', 'GDP': 'Y', 'Out': 'Y'},
           {'Out': 'GDP', 'GDP': 'Y'}, {'Gov': 'Out', 'Out': 'GDP', 'GDP': 'Y'}, {'_gdp': 'Y'}, {'_c': 'C', 'Cons': '_c'}, {'GDP': 'Y', 'Cons': 'GDP', 'Out': 'GDP', 'Gov': 'Cons'}]
    while len(out) < count:
        k = rng.randint(1, 4)
        names = rng.sample(ALIAS_NAMES, k)
        m = {}
        for a in names:
            m[a] = rng.choice(VARS + [x for x in names if x != a] + ([a] if rng.random() < 0.1 else []))
        if rng.random() < 0.1:
            v = rng.choice(VARS)
            m[v] = v
        out.append(m)
    return out


def make_span(case):
    """Six periods: years, or text labels spelled like the model's variables and aliases (a period label is never an alias)."""
    if case.get('span_kind') == 'names-as-labels':
        return ['GDP', 'Y', 'Out', 'C', 'Cons', 'Wl']
    return range(2000, 2006)


def construct(ctx, A, kwargs, case):
    files = [os.path.join(common.REPO, 'fsic/extensions/common.py')]
    try:
        with mon.StepBudget(files, BUDGET) as b:
            with warnings.catch_warnings():
                warnings.simplefilter('ignore')
                m = A(make_span(case), **kwargs)
        ctx.count('constructors_under_budget')
        ctx.count('constructor_steps', b.steps)
        return m
    except mon.BudgetExceeded:
        ctx.violation('constructor-does-not-terminate', f'AliasMixin.__init__ exceeded {BUDGET} logical steps for ALIASES={case["aliases"]}', case)
        return 'budget'
    except Exception as e:
        return e


def model_state(m):
    s = snap.snapshot(m)
    for k in ('aliases', 'preferred_names', 'class'):
        s.pop(k, None)
    return s


def ops(rng, names_for, span):
    """One random operation as (description, f(model, name_of)) where name_of maps canonical -> spelling."""
    v = rng.choice(VARS)
    i = rng.randrange(len(span))
    j = rng.randrange(i, len(span))
    val = round(rng.uniform(-5, 5), 3)
    seq = [round(rng.uniform(0, 9), 2) for _ in span]
    kind = rng.choice(['attr-seq', 'attr-scalar', 'attr-pos', 'item-seq', 'item-pos', 'label', 'slice', 'replace', 'read', 'solve', 'values', 'introspect', 'copy-roundtrip',
                       'attr-seq-misshapen', 'item-seq-misshapen', 'attr-seq-held', 'instance-alias-copy'])
    if kind in ('attr-seq-misshapen', 'item-seq-misshapen'):
        # a sequence that does not fit (too short, too long, one element, nested): refused the same way through either spelling
        bad = rng.choice([[7.0], list(seq) + [1.0], list(seq)[:-1], [list(seq)], [], (1.0, 2.0), range(len(span) + 2)])
        if kind == 'attr-seq-misshapen':
            return (kind, v, repr(bad)), lambda m, nm: setattr(m, nm(v), bad)
        return (kind, v, repr(bad)), lambda m, nm: m.__setitem__(nm(v), bad)
    if kind == 'instance-alias-copy':
        # an alias declared on the object itself (not on its class) belongs to the object: a copy has it too
        def g(m, nm):
            if isinstance(m.__dict__.get('aliases'), dict):
                m.aliases['InstAl'] = v
                try:
                    return float(m.copy()['InstAl'][i])
                finally:
                    m.aliases.pop('InstAl', None)       # (the rest of this history works with the declared map)
            return float(m.copy()[v][i])
        return (kind, v, i), g
    if kind == 'attr-seq-held':
        # what a whole-series write does to an array handed out earlier is the same through either spelling
        def f(m, nm):
            held = getattr(m, v)
            image = [float(x) for x in held]
            setattr(m, nm(v), list(seq))
            return ([float(x) for x in held] == image, held is getattr(m, v))
        return (kind, v), f
    if kind == 'introspect':
        # name listing for completion / dir(): results legitimately differ (aliases are listed), the state must not
        return (kind,), lambda m, nm: (m._ipython_key_completions_(), dir(m), nm(v) in m, len(m._ipython_key_completions_()) >= 0)[3]
    if kind == 'copy-roundtrip':
        return (kind, v, i), lambda m, nm: float(m.copy()[nm(v)][i])
    if kind == 'attr-seq':
        return (kind, v), lambda m, nm: setattr(m, nm(v), list(seq))
    if kind == 'attr-scalar':
        return (kind, v), lambda m, nm: setattr(m, nm(v), val)
    if kind == 'attr-pos':
        return (kind, v, i), lambda m, nm: getattr(m, nm(v)).__setitem__(i, val)
    if kind == 'item-seq':
        return (kind, v), lambda m, nm: m.__setitem__(nm(v), tuple(seq))
    if kind == 'item-pos':
        return (kind, v, i), lambda m, nm: m[nm(v)].__setitem__(i, val)
    if kind == 'label':
        return (kind, v, i), lambda m, nm: m.__setitem__((nm(v), span[i]), val)
    if kind == 'slice':
        return (kind, v, i, j), lambda m, nm: m.__setitem__((nm(v), slice(span[i], span[j])), val)
    if kind == 'replace':
        w = rng.choice(VARS)
        return (kind, v, w), lambda m, nm: m.replace_values(**{nm(v): val, nm(w): list(seq)})
    if kind == 'read':
        return (kind, v, i, j), lambda m, nm: (float(getattr(m, nm(v))[i]), float(m[nm(v)][j]), float(m[nm(v), span[i]]), [float(x) for x in m[nm(v), span[i]:span[j]]], nm(v) in dir(m) or True)
    if kind == 'solve':
        return (kind,), lambda m, nm: m.solve(failures='ignore', max_iter=20)
    return (kind,), lambda m, nm: setattr(m, 'values', val)


def do(f, *a):
    with warnings.catch_warnings():
        warnings.simplefilter('ignore')
        try:
            return ('ret', f(*a))
        except Exception as e:
            return ('exc', type(e).__name__)


def check_map(ctx, Canon, aliases, preferred, rng, steps):
    case = {'aliases': aliases, 'preferred': preferred, 'span_kind': rng.choice(['years', 'years', 'names-as-labels'])}
    has_cycle = any(resolve(aliases, a) is None for a in aliases)
    if has_cycle:
        # cyclic maps name no variable at all; the statement quantifies over chains, many-to-one maps and self-maps only
        ctx.count('cyclic_maps_not_in_scope')
        return
    aliases_late = {'Wl': 'Znew', 'Wl2': 'Wl'} if (len(aliases) + len(preferred)) % 3 == 0 and 'Wl' not in aliases else {}
    aliases = dict(aliases, **aliases_late)
    case['aliases_with_late'] = aliases
    A = aliased_class(Canon, aliases, preferred)
    spellings = {v: [v] + [a for a in aliases if a not in VARS and resolve(aliases, a) == v] for v in VARS}
    # constructor keywords through aliases
    init_vals = {v: round(rng.uniform(1, 9), 2) for v in VARS}
    chosen = {v: rng.choice(spellings[v]) for v in VARS}
    # another instance of the same class whose alias table was edited in place beforehand (every declared alias re-pointed to a
    # different variable): the instance under test still follows the declared map
    try:
        noise = construct(ctx, A, {}, case)       # under the same step budget as the instance under test
        if noise == 'budget':
            return
        for a_ in list(noise.aliases):
            noise.aliases[a_] = VARS[(VARS.index(noise.aliases[a_]) + 1) % len(VARS)] if noise.aliases[a_] in VARS else VARS[0]
        noise.aliases['Qq'] = VARS[0]
        ctx.count('sibling_alias_tables_edited')
    except Exception:
        pass
    strict = rng.random() < 0.3          # strict objects refuse *new* names; an alias is not a new name
    case['strict'] = strict
    m = construct(ctx, A, dict({chosen[v]: init_vals[v] for v in VARS} if not has_cycle else {}, strict=strict), case)
    if m == 'budget':
        return
    # ambiguous preferences must be rejected (at construction or at export)
    targets = [resolve(aliases, p) for p in preferred]
    ambiguous = len(set(targets)) != len(targets)
    if isinstance(m, Exception):
        if ambiguous and isinstance(m, ValueError):
            ctx.count('ambiguous_preferences_rejected')
            return
        if has_cycle:
            ctx.count('cyclic_maps_rejected')
            return
        ctx.violation('constructor-raises', f'constructing with ALIASES={aliases}, PREFERRED_NAMES={preferred} raised {m!r}', case)
        return
    if has_cycle:
        ctx.count('cyclic_maps_terminated')
        return
    twin = Canon(make_span(case), strict=strict, **init_vals)
    span = list(twin.span)
    hist = [('init', dict(chosen))]
    case['history'] = hist
    # no additional storage
    extra = set(m.__dict__) - set(twin.__dict__) - {'aliases', 'preferred_names'}
    if extra:
        ctx.violation('alias-extra-storage', f'aliased model has extra entries {sorted(extra)}', case)
        return
    d = snap.diff(model_state(m), model_state(twin))
    if d:
        ctx.violation('alias-constructor-keyword', f'constructor keywords through aliases {chosen} differ from canonical at {d[:4]}', case)
        return
    for s in range(steps):
        desc, f = ops(rng, None, span)
        pick = {v: rng.choice(spellings[v]) for v in VARS}
        hist.append((desc, {v: pick[v] for v in VARS if pick[v] != v}))
        # (names sometimes arrive as NumPy strings - iterated out of an array of names, a DataFrame's columns: still those names)
        as_np = rng.random() < 0.25
        ra = do(f, m, (lambda v: np.str_(pick[v])) if as_np else (lambda v: pick[v]))
        rb = do(f, twin, lambda v: v)
        ctx.count('twin_steps_compared')
        ctx.seen('operations', desc[0])
        if ra != rb:
            ctx.violation('alias-operation-outcome', f'{desc} through {pick}: aliased -> {ra}, canonical -> {rb}', case)
            return
        d = snap.diff(model_state(m), model_state(twin))
        if d:
            ctx.violation('alias-operation-state', f'{desc} through {pick} left the aliased model different from the canonical twin at {d[:4]}', case)
            return
        extra = set(m.__dict__) - set(twin.__dict__) - {'aliases', 'preferred_names'}
        if extra:
            ctx.violation('alias-extra-storage', f'after {desc} the aliased model has extra entries {sorted(extra)}', case)
            return
    # ---- an alias declared for a variable that only comes into being later (add_variable after construction) ------------
    if 'Wl' in aliases_late:
        r = [do(lambda: m.add_variable('Znew', 2.0)), do(lambda: twin.add_variable('Znew', 2.0))]
        steps_late = [(lambda o, nm: o.__setitem__(nm, 7.5)), (lambda o, nm: o.__setitem__((nm, list(o.span)[1]), 3.0)), (lambda o, nm: setattr(o, nm, [1.0] * 6)),
                      (lambda o, nm: o.replace_values(**{nm: 4.25})), (lambda o, nm: float(o[nm][2])), (lambda o, nm: float(getattr(o, nm)[3]))]
        for k, f in enumerate(steps_late):
            ra = do(lambda: f(m, 'Wl' if k % 2 == 0 else 'Wl2'))
            rb = do(lambda: f(twin, 'Znew'))
            ctx.count('twin_steps_compared')
            d = snap.diff(model_state(m), model_state(twin))
            extra = set(m.__dict__) - set(twin.__dict__) - {'aliases', 'preferred_names'}
            if ra != rb or d or extra:
                ctx.violation('alias-operation-state', f'alias declared for a variable added after construction: step {k} through the alias -> {ra}, canonical -> {rb}; differences {d[:4]}; extra entries {sorted(extra)}', case)
                return
    # ---- preferences edited on the instance: ambiguity is (also) rejected at export ----------------------
    # (`preferred_names` copies PREFERRED_NAMES "initially" - the export's own error message - so it may be edited later)
    for v in VARS:
        if len(spellings[v]) < 2:
            continue
        pair = rng.sample(spellings[v], 2)
        others = [p for p in preferred if resolve(aliases, p) != v and p != v]
        m2 = m.copy()
        m2.preferred_names[:] = others + pair if rng.random() < 0.5 else pair + others      # edited in place (works on strict objects too)
        r = do(lambda: m2.to_dataframe(use_aliases=True))
        ctx.count('runtime_preferences_checked')
        if not (r[0] == 'exc' and r[1] == 'ValueError'):
            ctx.violation('ambiguous-preference-accepted', f'preferred_names set to {m2.preferred_names} on the instance (both name {v!r}; aliases {aliases}) but the export returned {r[0]} '
                          f'{list(r[1].columns) if r[0] == "ret" else r[1]}', dict(case, runtime_preferred=list(m2.preferred_names)))
            return
    # ---- an object's preferences are its own: editing them in place on a sibling built by the constructor reaches neither the class
    #      declaration nor this object
    sib = construct(ctx, A, dict(strict=strict), case)
    if sib != 'budget' and not isinstance(sib, Exception):
        mine_before, class_before = list(m.preferred_names), list(A.PREFERRED_NAMES)
        sib.preferred_names.append('Qq_pref')
        sib.preferred_names.reverse()
        ctx.count('sibling_preferences_edited')
        if list(m.preferred_names) != mine_before or list(A.PREFERRED_NAMES) != class_before or list(type(m).__mro__[1].__dict__.get('PREFERRED_NAMES', [])) not in ([], class_before):
            ctx.violation('alias-extra-storage', f'editing a sibling object\'s preferred_names in place changed this object\'s ({mine_before} -> {list(m.preferred_names)}) or the class declaration '
                                                 f'({class_before} -> {list(A.PREFERRED_NAMES)})', case)
            return
    # ---- export ---------------------------------------------------------------------------
    for flags in ({}, {'status': False}, {'iterations': False, 'status': False}):
        plain = twin.to_dataframe(**flags)
        r0 = do(lambda: m.to_dataframe(**flags))
        r1 = do(lambda: m.to_dataframe(use_aliases=True, **flags))
        ctx.count('exports_compared')
        if r0[0] != 'ret' or not frames_equal(r0[1], plain, list(plain.columns)):
            ctx.violation('alias-export-default', f'to_dataframe() of the aliased model differs from the canonical export: {r0}', case)
            return
        if ambiguous:
            if not (r1[0] == 'exc' and r1[1] == 'ValueError'):
                ctx.violation('ambiguous-preference-accepted', f'PREFERRED_NAMES={preferred} point twice to one variable but the export returned {r1[0]}', case)
            return
        if r1[0] != 'ret':
            ctx.violation('alias-export-raises', f'to_dataframe(use_aliases=True) raised {r1[1]} for ALIASES={aliases} PREFERRED_NAMES={preferred}', case)
            return
        df = r1[1]
        cols = list(df.columns)
        if len(cols) != len(plain.columns):
            ctx.violation('alias-export-columns', f'aliased export has columns {cols}, plain export {list(plain.columns)}', case)
            return
        for c_alias, c_plain in zip(cols, plain.columns):
            target = resolve(aliases, c_alias) if c_alias not in VARS else c_alias
            if c_alias != c_plain and target != c_plain:
                ctx.violation('alias-export-columns', f'column {c_alias!r} stands where {c_plain!r} is expected (columns {cols})', case)
                return
            if not preferred and len(spellings.get(c_plain, [c_plain])) > 1 and c_alias == c_plain:
                ctx.violation('alias-export-not-renamed', f'use_aliases=True with no PREFERRED_NAMES: variable {c_plain!r} has aliases {spellings[c_plain][1:]} but its column kept the original name', case)
                return
            pref = [p for p in preferred if resolve(aliases, p) == c_plain or p == c_plain]
            if pref and c_alias != pref[0]:
                ctx.violation('alias-export-preferred', f'variable {c_plain!r}: preferred name {pref[0]!r} declared, column is {c_alias!r}', case)
                return
        if len(set(cols)) != len(cols):
            ctx.violation('alias-export-columns', f'duplicate column labels {cols}', case)
            return
        if not frames_equal(df, plain, cols):
            ctx.violation('alias-export-data', 'aliased export changes data', case)
            return
        if flags.get('status') is False and flags.get('iterations') is False:
            # the exported table, alias-named columns and all, builds the same model again: from_dataframe hands the columns to the
            # constructor as keywords, and a constructor keyword through an alias is the keyword of the underlying variable
            r3 = do(lambda: type(m).from_dataframe(df))
            ctx.count('alias_named_tables_imported')
            if r3[0] != 'ret':
                ctx.violation('alias-constructor-keyword', f'from_dataframe() of the aliased export (columns {cols}) raised {r3[1]}', case)
                return
            bad = [v for v in VARS if not np.array_equal(np.asarray(r3[1][v]), np.asarray(twin[v]), equal_nan=True)]
            if bad:
                ctx.violation('alias-constructor-keyword', f'from_dataframe() of the aliased export (columns {cols}): {bad} come back as {[r3[1][v].tolist() for v in bad]}, the model holds {[twin[v].tolist() for v in bad]}', case)
                return


def frames_equal(df, plain, cols):
    if list(df.index) != list(plain.index) or len(df.columns) != len(plain.columns):
        return False
    for a, b in zip(df.columns, plain.columns):
        x, y = df[a].values, plain[b].values
        if x.dtype != y.dtype:
            return False
        if x.dtype.kind == 'f':
            if not np.array_equal(x, y, equal_nan=True):
                return False
        elif list(x) != list(y):
            return False
    return True


def run_shard(ctx):
    rng = ctx.rng('c18')
    Canon = canon_class()
    traced_aliases(ctx, Canon, rng)
    maps = alias_maps(rng, ctx.pick(200, 1500))
    idx = 0
    for aliases in maps:
        names = sorted(set(aliases) | set(VARS))
        pref_sets = [[]] + [[p] for p in names] + [list(p) for p in itertools.combinations(names, 2)]
        if ctx.quick:
            pref_sets = [[]] + rng.sample(pref_sets[1:], min(4, len(pref_sets) - 1))
        for preferred in pref_sets:
            idx += 1
            if not ctx.mine(idx):
                continue
            ctx.evaluation((aliases, preferred), nontrivial=bool(aliases), sample={'aliases': aliases, 'preferred': preferred})
            check_map(ctx, Canon, aliases, preferred, rng, ctx.pick(6, 10))


def traced_aliases(ctx, Canon, rng, every=False):
    """Aliases next to the tracer extension: asking for a trace of a variable by its alias (or by an alias of an alias) is asking
    for a trace of that variable - same solution, same snapshots."""
    from fsic.extensions import AliasMixin, TracerMixin
    for k, aliases in enumerate([{'GDP': 'Y'}, {'GDP': 'Y', 'Out': 'GDP'}, {'Cons': 'C', 'Gov': 'G', 'GDP': 'Y'}, {'Gov': 'Out', 'Out': 'GDP', 'GDP': 'Y'}]):
        if not every and not ctx.mine(k):
            continue
        TA = type('TA', (AliasMixin, TracerMixin, Canon), {'ALIASES': dict(aliases)})
        TC = type('TC', (TracerMixin, Canon), {})
        names = list(aliases)
        for spec in [names[0], [names[-1]], list(names), [names[0], 'C']]:
            for entry in ('solve', 'solve_t', 'solve_period'):
                canon = [resolve(aliases, x) if x in aliases else x for x in ([spec] if isinstance(spec, str) else spec)]
                case = {'kind': 'traced-aliases', 'aliases': aliases, 'trace': spec, 'entry': entry}
                ctx.evaluation(('traced-aliases', repr(aliases), repr(spec), entry), nontrivial=True, sample=case)
                a, b = TA(range(2000, 2006), G=20.0), TC(range(2000, 2006), G=20.0)
                args = {'solve': (), 'solve_t': (2,), 'solve_period': (2002,)}[entry]
                ra = do(lambda: getattr(a, entry)(*args, failures='ignore', max_iter=30, trace=spec))
                rb = do(lambda: getattr(b, entry)(*args, failures='ignore', max_iter=30, trace=canon[0] if isinstance(spec, str) else canon))
                ctx.count('twin_steps_compared')
                if repr(ra) != repr(rb) or any(a[v].tolist() != b[v].tolist() for v in VARS) or list(a.status) != list(b.status):
                    ctx.violation('alias-operation-outcome', f'{entry}(trace={spec!r}) on an aliased model -> {str(ra)[:120]}; the same call with the variables\' own names {canon} on the twin -> {str(rb)[:120]}', case)
                    return
                for t in range(6):
                    ta, tb = a['trace'][t], b['trace'][t]
                    if list(ta.index) != list(tb.index) or repr(np.asarray(ta.values, dtype=float).tolist()) != repr(np.asarray(tb.values, dtype=float).tolist()):
                        ctx.violation('alias-operation-state', f'{entry}(trace={spec!r}): period {t} trace {list(ta.index)} / {np.asarray(ta.values).tolist()} differs from the twin traced by {canon}: {list(tb.index)} / {np.asarray(tb.values).tolist()}', case)
                        return


def replay(ctx, case):
    if case.get('kind') == 'traced-aliases':
        ctx.inconclusive_because('re-run the shard with the same VERIF_SEED')
        return
    ctx.evaluation(case, nontrivial=True)
    check_map(ctx, canon_class(), case['aliases'], case['preferred'], ctx.rng('c18'), 10)
