"""Grammar-directed generator of fsic model scripts.

Programs are built as ASTs and rendered three ways from the same tree:
  script  - the text handed to fsic.parse_model (with layout noise from a Layout)
  ref     - reference Python source in which every term is a call R('name', k) /
            RN('name', label) and the assignment is W('name', k, value)
  code    - the spelling fsic is expected to generate (self._X[t-1]), used only for a
            fast structural comparison, never as the verdict
Because all three come from the same tree by plain concatenation, operator
precedence is decided by Python's own parser in every case and the oracle never has to
parse fsic's input language."""
import itertools

REPLACED = {'exp': 'np.exp', 'log': 'np.log', 'max': 'max', 'min': 'min'}
FUNCS1 = ['exp', 'log', 'abs', 'np.sqrt', 'np.abs', 'float', 'np.linalg.norm', 'np.emath.log']   # incl. nested namespaces
FUNCS2 = ['max', 'min', 'np.maximum', 'np.minimum', 'np.ma.core.maximum']
BINOPS = ['+', '-', '*', '/', '**']
CMPOPS = ['>', '>=', '<', '<=', '==', '!=']

# identifier shapes the regex tokeniser could get wrong
NAME_POOL = ['C', 'Y', 'H_h', 'x1', 'X_if', 'is_open', 'Pin', 'not_X', 'origin', 't', 'np', 'exp', 'log', 'max',
             'min', 'xlog', 'log10', 'alpha_1', 'e', 'in_', 'T', 'G', 'YD', 'a', 'b', 'k9', 'N__d', 'If', 'Else',
             'forx', 'andy', 'D_or', 'abs', 'lambda_', 'Z', 'W', 'V', 'nonlocal_x', 'x_', 'expX', 'logs', 'maxim',
             # Python *soft* keywords are ordinary identifiers, hence ordinary variable names
             'type', 'match', 'case',
             # names that read like special values or missing-cell markers
             'nan', 'inf', 'NA',
             # a keyword with a digit stuck to it is an ordinary name
             'in1', 'or2', 'if0', 'is1', 'as3', 'not9',
             # names that merely begin like the solution records
             'status2', 'iterations_cap']
UNDERSCORE_POOL = ['_u', '_X', '__v']


class Node:
    __slots__ = ()

    def children(self):
        return ()

    def walk(self):
        yield self
        for c in self.children():
            yield from c.walk()


class Num(Node):
    __slots__ = ('text',)

    def __init__(self, text):
        self.text = text


class Var(Node):
    """A variable / {parameter} / <error> term with an integer offset.
    explicit: whether the index is written at all (only meaningful for off == 0)
    plus: write a positive offset with an explicit '+'"""
    __slots__ = ('name', 'kind', 'off', 'explicit', 'plus')

    def __init__(self, name, kind='var', off=0, explicit=None, plus=False):
        self.name, self.kind, self.off = name, kind, off
        self.explicit = (off != 0) if explicit is None else (explicit or off != 0)
        self.plus = plus


class Named(Node):
    """A term indexed by a named period: X['2000'] (quoted) or X[`2000`] (verbatim index)."""
    __slots__ = ('name', 'kind', 'label', 'style')

    def __init__(self, name, kind, label, style):
        self.name, self.kind, self.label, self.style = name, kind, label, style  # style: "'" | '"' | '`'


class Neg(Node):
    __slots__ = ('e',)

    def __init__(self, e):
        self.e = e

    def children(self):
        return (self.e,)


class Bin(Node):
    __slots__ = ('op', 'l', 'r')

    def __init__(self, op, l, r):
        self.op, self.l, self.r = op, l, r

    def children(self):
        return (self.l, self.r)


class Paren(Node):
    __slots__ = ('e',)

    def __init__(self, e):
        self.e = e

    def children(self):
        return (self.e,)


class Call(Node):
    __slots__ = ('f', 'args')

    def __init__(self, f, args):
        self.f, self.args = f, list(args)

    def children(self):
        return tuple(self.args)


class Cmp(Node):
    """Always rendered inside its own parentheses (a bare `a < b > c` is an error term)."""
    __slots__ = ('op', 'l', 'r')

    def __init__(self, op, l, r):
        self.op, self.l, self.r = op, l, r

    def children(self):
        return (self.l, self.r)


class IfExp(Node):
    __slots__ = ('body', 'test', 'orelse')

    def __init__(self, body, test, orelse):
        self.body, self.test, self.orelse = body, test, orelse

    def children(self):
        return (self.body, self.test, self.orelse)


class Bool(Node):
    __slots__ = ('op', 'l', 'r')

    def __init__(self, op, l, r):
        self.op, self.l, self.r = op, l, r

    def children(self):
        return (self.l, self.r)


class Not(Node):
    __slots__ = ('e',)

    def __init__(self, e):
        self.e = e

    def children(self):
        return (self.e,)


class Verb(Node):
    """Partial verbatim fragment `...`: inserted unchanged into the generated code.
    `ref` is the reference spelling of the same Python expression."""
    __slots__ = ('text', 'ref')

    def __init__(self, text, ref):
        self.text, self.ref = text, ref


class Eq:
    """lhs: Var (kind 'var'); rhs: Node"""

    def __init__(self, lhs, rhs):
        self.lhs, self.rhs = lhs, rhs

    def terms(self):
        yield self.lhs
        for n in self.rhs.walk():
            if isinstance(n, (Var, Named)):
                yield n

    def has(self, cls):
        return any(isinstance(n, cls) for n in self.rhs.walk())


class Block:
    """Fenced verbatim block whose lines are the generated-code spelling of `eqs`."""

    def __init__(self, eqs, guard=0):
        self.eqs = list(eqs)
        # guard > 0: the lines sit, indented, under an always-true `if` (with trailing comments on some of them): verbatim code
        # keeps its indentation and its comments are Python's own
        self.guard = guard


class Program:
    def __init__(self, stmts):
        self.stmts = list(stmts)

    def equations(self):
        return [s for s in self.stmts if isinstance(s, Eq)]


# ---- (de)serialisation, so that replay files carry the exact AST -----------------------
_CLASSES = {}


def to_json(x):
    if isinstance(x, Node):
        return {'_': type(x).__name__, **{k: to_json(getattr(x, k)) for k in x.__slots__}}
    if isinstance(x, Eq):
        return {'_': 'Eq', 'lhs': to_json(x.lhs), 'rhs': to_json(x.rhs)}
    if isinstance(x, Block):
        return {'_': 'Block', 'eqs': [to_json(e) for e in x.eqs], 'guard': getattr(x, 'guard', 0)}
    if isinstance(x, Program):
        return {'_': 'Program', 'stmts': [to_json(e) for e in x.stmts]}
    if isinstance(x, (list, tuple)):
        return [to_json(e) for e in x]
    return x


def from_json(j):
    if isinstance(j, list):
        return [from_json(e) for e in j]
    if not isinstance(j, dict) or '_' not in j:
        return j
    kind = j['_']
    args = {k: from_json(v) for k, v in j.items() if k != '_'}
    if kind == 'Eq':
        return Eq(args['lhs'], args['rhs'])
    if kind == 'Block':
        return Block(args['eqs'], args.get('guard', 0))
    if kind == 'Program':
        return Program(args['stmts'])
    cls = globals()[kind]
    obj = cls.__new__(cls)
    for k, v in args.items():
        setattr(obj, k, v)
    return obj


# ---- layout ------------------------------------------------------------------------
class Layout:
    """Decides optional whitespace, line breaks inside parentheses, comments and blank
    lines.  Layout(None) is the canonical, minimal layout."""

    def __init__(self, rng=None, noise=0.3, breaks=0.0, comments=0.0, tight=False, inner_p=None, pre_p=0.0, bare_p=0.0):
        self.rng, self.noise, self.breaks, self.comments, self.tight = rng, noise, breaks, comments, tight
        self.bare_p = bare_p      # probability that the comparison after `if` is written without its (redundant) parentheses
        self.inner_p = noise if inner_p is None else inner_p
        self.pre_p = pre_p
        self.depth = 0

    def pre(self):
        """Whitespace between a term and its index bracket."""
        if self.rng is None or self.rng.random() >= self.pre_p:
            return ''
        return self.rng.choice([' ', '  ', '\t'])

    def ws(self, default=''):
        """Optional whitespace at a token boundary where Python allows any."""
        if self.rng is None:
            return default
        r = self.rng.random()
        if r < self.noise:
            return self.rng.choice([' ', '  ', '\t', ' \t'])
        return '' if self.tight else default

    def kw(self, left, right):
        """Separator between a keyword and its neighbour: Python needs none next to a bracket (`x if(c)else(y)`,
        `(a)and(b)`, `not(x)`); `left`/`right` are the characters on either side (one of them the keyword's).  Braces, angle
        brackets and backticks are term delimiters of the script language, not Python brackets: they keep their blank."""
        if self.rng is None or not (left in tuple(')]') or right in tuple('(')):
            return ' '
        if self.rng.random() < (0.6 if self.tight else 0.15):
            return ''
        return ' '

    def inner(self):
        """Whitespace directly inside {..}, <..> and [..]."""
        if self.rng is None or self.rng.random() >= self.inner_p:
            return ''
        return self.rng.choice([' ', '  ', '\t'])

    def brk(self):
        """A possible line break (only ever requested while inside parentheses)."""
        if self.rng is None or self.depth <= 0 or self.rng.random() >= self.breaks:
            return ''
        c = ''
        if self.rng.random() < self.comments:
            c = self.rng.choice([' # ', '# ', '#', '  #']) + self.rng.choice(['note', 'x = 1', 'Y[t] (ignored)', '{a} <b> `c`', 'a ) b', '( open', 'eq. #3 of the paper', '# heading #', 'a # b = c'])
        extra = ''
        if self.rng.random() < self.comments * 0.5:
            extra = self.rng.choice(['\n', '\n   ', '\n# a comment-only line', '\n\t# indented comment'])   # blank / comment-only lines inside the statement
        return c + extra + '\n' + self.rng.choice(['', ' ', '    ', '\t'])


def render(node, mode, lay):
    """mode: 'script' | 'ref' | 'code'"""
    if isinstance(node, Num):
        return node.text
    if isinstance(node, Var):
        return render_var(node, mode, lay)
    if isinstance(node, Named):
        if mode == 'ref':
            return f'RN({node.name!r}, {node.label!r})'
        key = node.label if node.style == '`' else repr(node.label)
        if mode == 'code':
            return f"self[{node.name!r}, {key}]"
        idx = f'`{node.label}`' if node.style == '`' else f'{node.style}{node.label}{node.style}'
        return wrap_kind(node.name, node.kind, lay) + f'{lay.pre()}[{lay.inner()}{idx}{lay.inner()}]'
    if isinstance(node, Neg):
        return '-' + (lay.ws() if mode == 'script' else '') + render(node.e, mode, lay)
    if isinstance(node, Bin):
        l = render(node.l, mode, lay)
        if mode == 'script':
            a, b = lay.ws(' '), lay.ws(' ')
            k = lay.brk()
            return f'{l}{a}{node.op}{k or b}{render(node.r, mode, lay)}'
        return f'{l} {node.op} {render(node.r, mode, lay)}'
    if isinstance(node, Paren):
        if mode == 'script':
            lay.depth += 1
            s = '(' + lay.ws() + lay.brk() + render(node.e, mode, lay) + lay.ws() + lay.brk() + ')'
            lay.depth -= 1
            return s
        return '(' + render(node.e, mode, lay) + ')'
    if isinstance(node, Call):
        if mode == 'script':
            lay.depth += 1
            args = (',' + lay.ws(' ')).join(lay.brk() + render(a, mode, lay) + lay.ws() for a in node.args)
            lay.depth -= 1
            return f'{node.f}{lay.ws()}({lay.ws()}{args})'
        f = REPLACED.get(node.f, node.f)
        return f'{f}(' + ', '.join(render(a, mode, lay) for a in node.args) + ')'
    if isinstance(node, Cmp):
        if mode == 'script':
            lay.depth += 1
            s = f'({render(node.l, mode, lay)} {node.op} {render(node.r, mode, lay)})'
            lay.depth -= 1
            return s
        return f'({render(node.l, mode, lay)} {node.op} {render(node.r, mode, lay)})'
    if isinstance(node, IfExp):
        if mode == 'script':
            lay.depth += 1
            body = render(node.body, mode, lay)
            if isinstance(node.test, Cmp) and lay.rng is not None and lay.bare_p and lay.rng.random() < lay.bare_p:
                test = f'{render(node.test.l, mode, lay)} {node.test.op} {render(node.test.r, mode, lay)}'
            else:
                test = render(node.test, mode, lay)
            orelse = render(node.orelse, mode, lay)
            s = f'({body}{lay.brk() or lay.kw(body[-1:], "i")}if{lay.kw("f", test[:1])}{test}{lay.brk() or lay.kw(test[-1:], "e")}else{lay.kw("e", orelse[:1])}{orelse})'
            lay.depth -= 1
            return s
        return f'({render(node.body, mode, lay)} if {render(node.test, mode, lay)} else {render(node.orelse, mode, lay)})'
    if isinstance(node, Bool):
        if mode == 'script':
            lay.depth += 1
            l, r = render(node.l, mode, lay), render(node.r, mode, lay)
            s = f'({l}{lay.kw(l[-1:], node.op[0])}{node.op}{lay.brk() or lay.kw(node.op[-1], r[:1])}{r})'
            lay.depth -= 1
            return s
        return f'({render(node.l, mode, lay)} {node.op} {render(node.r, mode, lay)})'
    if isinstance(node, Not):
        if mode == 'script':
            e = render(node.e, mode, lay)
            return f'(not{lay.kw("t", e[:1])}{e})'
        return f'(not {render(node.e, mode, lay)})'
    if isinstance(node, Verb):
        if mode == 'script':
            return f'`{node.text}`'
        if mode == 'code':
            return node.text
        return node.ref
    raise TypeError(node)


def wrap_kind(name, kind, lay):
    if kind == 'param':
        return '{' + lay.inner() + name + lay.inner() + '}'
    if kind == 'error':
        return '<' + lay.inner() + name + lay.inner() + '>'
    return name


def offset_text(off):
    return '' if off == 0 else (f'+{off}' if off > 0 else str(off))


def render_var(v, mode, lay):
    if mode == 'ref':
        return f'R({v.name!r}, {v.off})'
    if mode == 'code':
        return f'self._{v.name}[t{offset_text(v.off)}]'
    s = wrap_kind(v.name, v.kind, lay)
    if v.explicit:
        txt = str(v.off)
        if v.off > 0 and v.plus:
            txt = '+' + txt
        s += f'{lay.pre()}[{lay.inner()}{txt}{lay.inner()}]'
    return s


def render_eq(eq, mode, lay=None):
    lay = lay or Layout(None)
    if mode == 'ref':
        return f'W({eq.lhs.name!r}, {eq.lhs.off}, {render(eq.rhs, mode, lay)})'
    if mode == 'code':
        return f'{render_var(eq.lhs, mode, lay)} = {render(eq.rhs, mode, lay)}'
    lay.depth = 0
    lhs = render_var(eq.lhs, 'script', lay)
    rhs = render(eq.rhs, mode, lay)
    return f'{lhs}{lay.ws(" ")}={lay.ws(" ")}{rhs}'


BLOCK_COMMENTS = {'on': True}     # whether guarded verbatim blocks carry trailing Python comments (toggled by layout variants)


def render_block(block, mode):
    if mode == 'ref':
        return '\n'.join(render_eq(e, 'ref') for e in block.eqs)
    body = '\n'.join(render_eq(e, 'code') for e in block.eqs)
    g = getattr(block, 'guard', 0)
    if g:
        lines = body.split('\n')
        tails = ['  # note', '', ' # x = 1', '\t# last']
        cm = BLOCK_COMMENTS['on'] and mode == 'script'
        body = ('if True:' + ('  # always' if cm else '') + '\n' if g % 2 else 'if 1 > 0:\n') + '\n'.join('    ' + ln + (tails[(g + i) % len(tails)] if cm else '') for i, ln in enumerate(lines))
        if g % 3 == 0:
            body += '\nelse:\n    pass' + ('  # never' if cm else '')
    if mode == 'code':
        return body
    return '```\n' + body + '\n```'


def render_program(prog, lay=None):
    """Script text of the whole program."""
    lay = lay or Layout(None)
    out = []
    for s in prog.stmts:
        if lay.rng is not None and lay.comments and lay.rng.random() < lay.comments:
            out.append(lay.rng.choice(['# comment', '', '   ', '#', '# Y = X + 1', '\t', '## Households', '#--- block ---#', '# see #12 and #13']))
        if isinstance(s, Block):
            out.append(render_block(s, 'script'))
        else:
            line = render_eq(s, 'script', lay)
            if lay.rng is not None and lay.comments and lay.rng.random() < lay.comments:
                line += lay.rng.choice(['  # trailing', ' #', '\t# = + {x}', '# no space before', '#', '  # eq. #3 of the paper', ' ## twice', ' # Z = q # W = r'])
            out.append(line)
    return '\n'.join(out)


def execution_order(prog):
    """Statements in the order the built model runs them: equations in symbol-list
    order (= order in which their left-hand-side names first appear anywhere in the
    script, each name once), then verbatim blocks in script order."""
    first = {}
    for s in prog.stmts:
        if isinstance(s, Eq):
            for tm in s.terms():
                first.setdefault(tm.name, len(first))
            for n in s.rhs.walk():
                if isinstance(n, Call):
                    first.setdefault(n.f, len(first))
    seen = set()
    eqs = []
    for s in prog.stmts:
        if isinstance(s, Eq) and s.lhs.name not in seen:
            seen.add(s.lhs.name)
            eqs.append(s)
    eqs.sort(key=lambda e: first[e.lhs.name])
    out = list(eqs)
    for s in prog.stmts:
        if isinstance(s, Block):
            out.extend(s.eqs)
    return out


# ---- expected classification ----------------------------------------------------------
class Expect:
    """What the statement of C03 prescribes for a program."""

    def __init__(self):
        self.reject = None           # None | 'SymbolError' | 'ParserError'
        self.reason = None
        self.endogenous = []
        self.exogenous = []
        self.parameters = []
        self.errors = []
        self.lags = 0
        self.leads = 0
        self.functions = set()
        self.features = set()


def classify(prog):
    """Reference classification from the AST alone."""
    ex = Expect()
    first = []          # names in order of first appearance
    kinds = {}          # name -> set of kinds
    lhs_defs = {}       # name -> set of distinct rhs/lhs spellings
    offs = []
    for s in prog.stmts:
        if isinstance(s, Block):
            ex.features.add('block')
            continue
        for tm in s.terms():
            if tm.name not in kinds:
                first.append(tm.name)
            kinds.setdefault(tm.name, set()).add(tm.kind)
            if isinstance(tm, Var):
                offs.append(tm.off)
            else:
                ex.features.add('named')
            if tm.name.startswith('_'):
                ex.features.add('underscore')
        if s.lhs.name in lhs_defs and render_eq(s, 'code') in lhs_defs[s.lhs.name]:
            ex.features.add('double-identical')
        lhs_defs.setdefault(s.lhs.name, set()).add(render_eq(s, 'code'))
        for n in s.rhs.walk():
            if isinstance(n, Call):
                ex.functions.add(n.f)
            elif isinstance(n, Verb):
                ex.features.add('verbatim')
            elif isinstance(n, (IfExp, Bool, Not)):
                ex.features.add('keyword')
            elif isinstance(n, Cmp):
                ex.features.add('compare')
    endo = set(lhs_defs)
    for name in first:
        ks = kinds[name]
        if len(ks) > 1:
            ex.reject, ex.reason = 'SymbolError', f'{name} used as {sorted(ks)}'
        if name in endo and ks & {'param', 'error'}:
            ex.reject, ex.reason = 'SymbolError', f'{name} endogenous and {sorted(ks)}'
    collide = [n for n in first if n in ex.functions]
    if collide and ex.reject is None:
        ex.reject, ex.reason = 'SymbolError', f'{collide[0]} used as variable and as function'
        ex.features.add('funcvar')
    if ex.reject is None:
        for name, defs in lhs_defs.items():
            if len(defs) > 1:
                ex.reject, ex.reason = 'ParserError', f'{name} defined by two different equations'
    for name in first:
        k = next(iter(kinds[name]))
        if name in endo:
            ex.endogenous.append(name)
        elif k == 'param':
            ex.parameters.append(name)
        elif k == 'error':
            ex.errors.append(name)
        else:
            ex.exogenous.append(name)
    ex.lags = -min(offs + [0])
    ex.leads = max(offs + [0])
    return ex


# ---- generators --------------------------------------------------------------------
VERB_CATALOGUE = [  # (fragment, reference spelling); every fragment is atomic (parenthesised, call or subscript)
    ('(3 + 4)', '(3 + 4)'), ('abs(-2.5)', 'abs(-2.5)'), ("float('1.5')", "float('1.5')"), ('(1 if 2 >= 0 else 2)', '(1 if True else 2)'),
    ('[1.0, 2.0][1]', '[1.0, 2.0][1]'), ('min(2, 3)', 'min(2, 3)'), ('(len(self.span) * 0 + 1)', '(1)'),
    # fragments whose *text* matters: repeated blanks, a tab, padding next to brackets inside string literals
    # fragments containing an empty pair of braces (an empty dict, a format placeholder inside a string)
    ('len({})', '0'), ("len('{}')", '2'), ("len('{} {}'.format(1, 2))", '3'),
    ("len('a  b')", '4'), ("len('( x )')", '5'), ("ord('\t')", '9'), ("'  x  y '.count(' ')", '5'),
]


def _replace_node(root, old, new):
    """Replace the node `old` (by identity) below `root` by `new`."""
    fields = [slot for cls in type(root).__mro__ for slot in getattr(cls, '__slots__', ())] + list(getattr(root, '__dict__', {}))
    if True:
        for slot in fields:
            v = getattr(root, slot, None)
            if v is old:
                setattr(root, slot, new)
                return True
            if isinstance(v, Node) and _replace_node(v, old, new):
                return True
            if isinstance(v, list):
                for i, x in enumerate(v):
                    if x is old:
                        v[i] = new
                        return True
                    if isinstance(x, Node) and _replace_node(x, old, new):
                        return True
    return False


def big_programs(rng, **kw):
    """Generator settings for models well past any small-size shortcut: up to 45 equations over up to 80 names."""
    args = dict(names=NAME_POOL + [f'v{i}' for i in range(60)] + [f'Q{i}_x' for i in range(20)], max_depth=2, max_eqs=45, max_names=80)
    args.update(kw)
    return RandomPrograms(rng, **args)


class RandomPrograms:
    def __init__(self, rng, *, names=None, max_depth=4, max_eqs=6, max_names=10, offsets=(-3, -2, -1, 0, 0, 0, 1, 2),
                 allow=('num', 'neg', 'bin', 'paren', 'call1', 'call2', 'cmp', 'ifexp', 'bool', 'verb', 'named', 'block'),
                 kinds=('var', 'var', 'var', 'var', 'param', 'error'), lhs_offsets=(0,), big_offsets=False,
                 conflict_rate=0.0, funcvar_rate=0.0, underscore_rate=0.0, literals=('1', '2', '0.5', '10', '3.25', '100.0', '0', '.5', '5.', '0.000125')):
        self.rng = rng
        self.pool = list(names or NAME_POOL)
        self.max_depth, self.max_eqs, self.max_names = max_depth, max_eqs, max_names
        self.offsets = list(offsets)
        self.allow = set(allow)
        self.kinds = list(kinds)
        self.lhs_offsets = list(lhs_offsets)
        self.big_offsets = big_offsets
        self.conflict_rate, self.funcvar_rate, self.underscore_rate = conflict_rate, funcvar_rate, underscore_rate
        self.literals = list(literals)

    def program(self):
        rng = self.rng
        n_names = rng.randint(2, self.max_names)
        names = rng.sample(self.pool, min(n_names, len(self.pool)))
        if rng.random() < self.underscore_rate:
            names[rng.randrange(len(names))] = rng.choice(UNDERSCORE_POOL)
        self.kind_of = {}
        self.used_funcs = set()
        if getattr(self, 'keyword_rate', 0.0) and rng.random() < self.keyword_rate:
            # a parameter or error may carry a Python keyword as its name: the braces / angle brackets delimit it
            kw = rng.choice(['lambda', 'in', 'is', 'or', 'if', 'class', 'not'])
            names[rng.randrange(len(names))] = kw
            self.kind_of[kw] = rng.choice(['param', 'error'])
        n_eq = rng.randint(1, self.max_eqs)
        lhs_names = []
        lhs_pool = [x for x in names if self.kind_of.get(x) not in ('param', 'error')] or names
        for _ in range(n_eq):
            nm = rng.choice(lhs_pool)
            tries = 0
            while nm in lhs_names and tries < 10:
                nm = rng.choice(lhs_pool)
                tries += 1
            if nm in lhs_names:
                break
            lhs_names.append(nm)
            self.kind_of[nm] = 'var'
        self.names = names
        self.forbid_funcs = set()
        stmts = []
        for nm in lhs_names:
            off = rng.choice(self.lhs_offsets)
            lhs = Var(nm, 'var', off, explicit=(off != 0 or rng.random() < 0.2))
            stmts.append(Eq(lhs, self.expr(rng.randint(0, self.max_depth))))
            if 'block' in self.allow and rng.random() < 0.06:
                bname = rng.choice(lhs_names)
                other = rng.choice(names)
                if self.kind_of.get(other, 'var') == 'var' and other not in self.used_funcs and bname not in self.used_funcs:
                    self.kind_of.setdefault(other, 'var')
                    # deliberately not idempotent, so that a block that is dropped, merged or run twice is observable
                    blk = Block([Eq(Var(bname, 'var', 0), Bin('+', Bin('*', Var(bname, 'var', 0), Num('0.5')), Var(other, 'var', 0)))],
                                guard=rng.choice([0, 0, 1, 2, 3, 4]))
                    stmts.append(blk)
                    if rng.random() < 0.3:
                        stmts.append(Block(list(blk.eqs), blk.guard))   # the same verbatim block written twice
        eq_names = {tm.name for st in stmts if isinstance(st, Eq) for tm in st.terms()}
        stmts = [st for st in stmts if isinstance(st, Eq) or all(tm.name in eq_names for e in st.eqs for tm in e.terms())]
        prog = Program(stmts)
        # deliberate conflicts (C03 must-reject cases)
        if rng.random() < self.conflict_rate:
            self.inject_conflict(prog)
        return prog

    def inject_conflict(self, prog):
        rng = self.rng
        eqs = prog.equations()
        mode = rng.choice(['kind', 'double', 'double-identical', 'double-lookalike'])
        if mode == 'double-lookalike':
            # a second definition that differs from the first only in how one period is addressed: an integer offset versus a
            # backticked label expression with the same *text* (X[-1] / X[`t-1`]) - different code, hence a different equation
            cands = [(e, t) for e in eqs for t in list(e.terms())[1:] if isinstance(t, Var) and not e.has(Verb)]
            if not cands:
                mode = 'double'
            else:
                import copy as _copy
                e0, t0 = rng.choice(cands)
                e1 = _copy.deepcopy(e0)
                k = [id(x) for x in list(e0.terms())[1:]].index(id(t0))
                t1 = list(e1.terms())[1:][k]
                label = 't' if t1.off == 0 else f't{t1.off:+d}'
                _replace_node(e1, t1, Named(t1.name, t1.kind, label, '`'))
                prog.stmts.append(e1)
                return
        if mode == 'kind':
            terms = [t for e in eqs for t in e.terms() if isinstance(t, Var)]
            if terms:
                t0 = rng.choice(terms)
                other = rng.choice([k for k in ('var', 'param', 'error') if k != t0.kind])
                eqs[-1].rhs = Bin('+', eqs[-1].rhs, Var(t0.name, other, 0))
        elif mode == 'double':
            e0 = rng.choice(eqs)
            prog.stmts.append(Eq(Var(e0.lhs.name, 'var', e0.lhs.off, explicit=e0.lhs.explicit), Bin('+', e0.rhs, Num('1'))))
        else:
            e0 = rng.choice(eqs)
            prog.stmts.append(Eq(Var(e0.lhs.name, 'var', e0.lhs.off, explicit=not e0.lhs.explicit or e0.lhs.off != 0), e0.rhs))

    def var(self):
        rng = self.rng
        nm = rng.choice(self.names)
        if nm in self.used_funcs and rng.random() >= self.funcvar_rate:
            alt = [n for n in self.names if n not in self.used_funcs]
            if alt:
                nm = rng.choice(alt)
        kind = self.kind_of.setdefault(nm, rng.choice(self.kinds))
        if 'named' in self.allow and rng.random() < getattr(self, 'named_rate', 0.04):
            style = rng.choice(["'", '"', '`'])
            label = rng.choice(['2000', '2001']) if style == '`' else rng.choice(['p1', 'p2'])
            return Named(nm, kind, label, style)
        off = rng.choice(self.offsets)
        if self.big_offsets and rng.random() < 0.05:
            off = rng.choice([-12, -10, 11, 25])
        return Var(nm, kind, off, explicit=(off != 0 or rng.random() < 0.25), plus=rng.random() < 0.4)

    def func(self, pool):
        rng = self.rng
        f = rng.choice(pool)
        root = f.split('.')[0]
        # a name already used as a variable is only used as a function at funcvar_rate
        if (f in self.kind_of or f in self.names) and rng.random() >= self.funcvar_rate:
            alt = [g for g in pool if g not in self.kind_of and g not in self.names]
            if not alt:
                return None
            f = rng.choice(alt)
        self.used_funcs.add(f)
        return f

    def expr(self, d):
        rng, A = self.rng, self.allow
        if d <= 0 or rng.random() < 0.25:
            r = rng.random()
            if r < 0.2 and 'num' in A:
                return Num(rng.choice(self.literals))
            if r < 0.24 and 'verb' in A:
                return Verb(*rng.choice(VERB_CATALOGUE))
            return self.var()
        choices = [k for k in ('bin', 'bin', 'bin', 'neg', 'paren', 'call1', 'call2', 'cmp', 'ifexp', 'bool') if k in A]
        k = rng.choice(choices)
        if k == 'bin':
            op = rng.choice(BINOPS)
            l, r = self.expr(d - 1), self.expr(d - 1)
            if op == '**':
                # keep exponents small and well-defined; wrap operands
                r = rng.choice([Num('2'), Num('0.5'), Paren(r)])
                if not isinstance(l, (Var, Num, Paren, Call)):
                    l = Paren(l)
                if isinstance(l, Num) and l.text.startswith('-'):
                    l = Paren(l)
            if rng.random() < 0.3:
                l = Paren(l)
            if rng.random() < 0.3:
                r = Paren(r)
            return Bin(op, l, r)
        if k == 'neg':
            e = self.expr(d - 1)
            return Neg(e if isinstance(e, (Var, Num, Paren, Call, Named)) else Paren(e))
        if k == 'paren':
            return Paren(self.expr(d - 1))
        if k == 'call1':
            f = self.func(FUNCS1 + list(self.extra_funcs1) if getattr(self, 'extra_funcs1', None) else FUNCS1)
            return Call(f, [self.expr(d - 1)]) if f else self.var()
        if k == 'call2':
            f = self.func(FUNCS2 + list(self.extra_funcs2) if getattr(self, 'extra_funcs2', None) else FUNCS2)
            return Call(f, [self.expr(d - 1), self.expr(d - 1)]) if f else self.var()
        if k == 'cmp':
            return IfExp(self.expr(d - 1), Cmp(rng.choice(CMPOPS), self.expr(d - 1), self.expr(d - 1)), self.expr(d - 1))
        if k == 'ifexp':
            return IfExp(self.expr(d - 1), self.test(d - 1), self.expr(d - 1))
        if k == 'bool':
            return IfExp(self.expr(d - 1), Bool(rng.choice(['and', 'or']), self.test(d - 1), self.test(d - 1)), self.expr(d - 1))
        raise AssertionError(k)

    def test(self, d):
        rng = self.rng
        c = Cmp(rng.choice(CMPOPS), self.expr(max(d - 1, 0)), rng.choice([Num('0'), Num('1'), self.expr(max(d - 1, 0))]))
        if 'bool' in self.allow and rng.random() < 0.15:
            return Not(c)
        return c


def small_shapes(level=1):
    """Exhaustive enumeration of small right-hand sides (depth <= 2, <= 3 leaves).
    Yields (tag, rhs Node).  `level` selects the size of the leaf alphabet."""
    def leaves(n):
        L = [Var('X', 'var', o, plus=(o > 0 and o % 2 == 0)) for o in (-2, -1, 0, 1, 2)]
        L += [Var('X', 'var', 0, explicit=True), Var('a', 'param', 0), Var('a', 'param', -1), Var('e', 'error', 0),
              Var('e', 'error', 1), Num('2'), Num('0.5')]
        return L[:n]
    L1 = leaves(12)
    L2 = leaves(12) if level > 1 else [Var('X', 'var', -1), Var('Z', 'var', 0), Var('a', 'param', 0), Num('2')]
    L3 = [Var('X', 'var', -1), Var('Z', 'var', 1), Var('a', 'param', 0), Num('2')] if level > 1 else [Var('X', 'var', -1), Var('a', 'param', 0), Num('2')]
    for a in L1:
        yield 'leaf', a
        yield 'neg', Neg(a)
        yield 'paren', Paren(a)
        for f in FUNCS1[:4]:
            yield 'call1', Call(f, [a])
    for a, b in itertools.product(L1, L2):
        for op in BINOPS:
            yield 'bin', Bin(op, a, b)
        for f in FUNCS2[:3]:
            yield 'call2', Call(f, [a, b])
        for op in (CMPOPS if level > 1 else CMPOPS[:2]):
            yield 'ifcmp', IfExp(a, Cmp(op, b, Num('1')), Num('0'))
    for a, b, c in itertools.product(L3, L3, L3):
        for o1, o2 in itertools.product(BINOPS, BINOPS):
            yield 'tern-flat', Bin(o2, Bin(o1, a, b), c)             # a o1 b o2 c  (precedence by Python)
            yield 'tern-left', Bin(o2, Paren(Bin(o1, a, b)), c)
            yield 'tern-right', Bin(o1, a, Paren(Bin(o2, b, c)))
        yield 'ifexp', IfExp(a, Cmp('>', b, Num('0')), c)
        yield 'bool', IfExp(a, Bool('and', Cmp('>', b, Num('0')), Cmp('<', c, Num('3'))), Num('1'))
        yield 'call-nest', Call('max', [a, Call('exp', [b])])
        yield 'neg-pow', Bin('**', Neg(a), Num('2'))
