"""C13 - the parser is total, fails only with its own errors, and has no side effects.

Monitors, all running in throw-away worker processes:
 (a) exception-class monitor around parse_model (only ParserError, SymbolError,
     IndentationError may escape);
 (b) a sys.monitoring step budget over fsic/parser.py - the bounded restatement of
     "terminates", decided on logical steps (the wall-clock watchdog only ever yields
     "inconclusive");
 (c) whenever parse_model returns: build_model must succeed and the class instantiate;
 (d) side-effect canaries: a builtin `__fsic_canary__` and a print spy referenced from
     scripts, an audit hook that attributes exec events to the parse window, and a digest
     of parser module globals / warnings filters / NumPy error state / cwd;
 (e) statement accounting: an independent splitter counts non-blank, non-comment
     statements; each must contribute exactly one equation or verbatim block."""
import builtins
import itertools
import os
import sys
import warnings

import numpy as np

from . import common, gen, mon

PROPERTY = 'C13'
LEVEL = 'exploration'
RULE = ('every string of length <= 3 (quick) / <= 4 (thorough) over the 24-character alphabet "ab1_ \\n=+-*/.,()[]{}<>`#\'e-acute", every '
        'token sequence of length <= 3 / <= 4 over 30 tokens (names, numbers, operators, brackets, braces, fences, newline, keywords, '
        'reserved names), every sequence of length <= 5 / <= 6 over 8 structural tokens (brackets, fences, newline, backtick, a tiny statement), and mutation fuzzing (token deletion, duplication, swap, insertion, bracket imbalance) of valid C01-grammar '
        'scripts including scripts that call a canary; non-trivial = distinct input string containing "=" ')
ASSUMPTIONS = ['termination is decided as a logical-step budget of 20000 + 2000 * len(input) executed lines of fsic/parser.py (two orders above the largest observed)',
               'identical duplicate statements count once (they are merged into one equation by design)',
               'regular-expression matching runs in C, invisible to the step budget: scripts built around one long token (up to 160 characters) are parsed in a child whose '
               'CPU time (RLIMIT_CPU, 20 CPU-seconds per batch of 48 one-line scripts; the unchanged tree needs milliseconds) decides "does not terminate"; wall-clock watchdogs only ever yield "inconclusive"']
ANCHORS = [('fsic/parser.py', 'split_equations_iter'), ('fsic/parser.py', 'parse_terms'), ('fsic/parser.py', 'parse_equation_terms'),
           ('fsic/parser.py', 'parse_equation'), ('fsic/parser.py', 'parse_model'), ('fsic/parser.py', 'build_model')]
REQUIRED_COUNTERS = {'long_token_inputs_parsed': 500, 'inputs_parsed': 5000, 'accepted_then_built': 200, 'statements_accounted': 200, 'canary_scripts': 20, 'state_digests_compared': 5000}
LEVEL_TEXT = ('Exhaustive short strings / token sequences and mutation fuzzing under an exception-class monitor, a logical-step budget, '
              'build+instantiate follow-up, side-effect canaries/audit hook/state digests and independent statement accounting.')
LEVEL_NOTE = 'Trusted: the 20-line reference statement splitter; CPython sys.monitoring / audit hooks. Exhaustive only up to the stated lengths.'
TECHNIQUE = 'exception-class monitor + sys.monitoring step budget + canaries/audit hook + statement accounting'
EXHAUSTIVE = {'quick': False, 'thorough': False}
ALPHABET = ['a', 'b', '1', '_', ' ', '\n', '=', '+', '-', '*', '/', '.', ',', '(', ')', '[', ']', '{', '}', '<', '>', '`', '#', "'", '\u00e9']
TOKENS = ['a', 'Y', 'x1', '1', '0.5', ' ', '\n', '=', '+', '-', '*', '/', '**', '(', ')', '[', ']', '[-1]', '{', '}', '<', '>', '`', '```\n', '#', ',', 'if', 'else', 'status', 'exp(']
RESERVED = {'status', 'iterations', 'lags', 'leads', 'endogenous', 'check', 'engine', 'dtype', 'names', 'span', 'index'}


def nshards(tier):
    return 16


class State:
    canary_calls = 0
    prints = 0
    in_parse = False
    exec_in_parse = 0
    hook_installed = False


def install_canaries():
    def canary(*a, **k):
        State.canary_calls += 1
        return 1.0

    builtins.__fsic_canary__ = canary
    real_print = builtins.print

    def spy(*a, **k):
        State.prints += 1
    builtins.print = spy
    if not State.hook_installed:
        def hook(event, args):
            if event == 'exec' and State.in_parse:
                State.exec_in_parse += 1
        sys.addaudithook(hook)
        State.hook_installed = True
    return real_print


def digest():
    """Observable global state that parsing/building must leave alone (contents, not object identities,
    so that a harmless internal cache in the parser module is not an alarm)."""
    import fsic.parser as P
    simple = {k: repr(v) for k, v in P.__dict__.items() if not k.startswith('__') and isinstance(v, (str, int, float, bool, tuple, dict, list, type(None)))}
    # ... and which classes the parser module's namespace binds under which names (a build that leaves its generated class behind
    # as a module-level name makes the next build, and pickling of earlier instances, depend on it)
    classes = tuple(sorted((k, v.__module__, v.__qualname__) for k, v in P.__dict__.items() if isinstance(v, type)))
    return (tuple((f[0], repr(f[1]), f[2].__name__, repr(f[3]), f[4]) for f in warnings.filters), repr(sorted(np.geterr().items())), os.getcwd(),
            tuple(sorted(simple.items())), len(builtins.__dict__), tuple(sys.path[:3]), classes)


def ref_split(script):
    """Independent statement splitter: strip comments, join lines while parentheses are open or a fence is open."""
    out, buf, depth, fence = [], [], 0, False
    for raw in script.splitlines():
        h = raw.find('#')
        line = raw if h < 0 else raw[:h].rstrip()
        buf.append(line)
        if line.startswith('```'):
            if len(buf) == 1:
                fence = True
                continue
            fence = False
        depth += line.count('(') - line.count(')')
        if depth == 0 and not fence:
            text = '\n'.join(buf)
            if text.strip():
                out.append(text)
            buf = []
    return out, (depth != 0 or fence or bool('\n'.join(buf).strip()))


def one_input(ctx, budget, script, kind, errors, expect_canary=False):
    import fsic
    case = {'script': script, 'kind': kind}
    ctx.evaluation(script, nontrivial='=' in script, sample=case)
    d0 = digest()
    c0, p0, e0 = State.canary_calls, State.prints, State.exec_in_parse
    budget.reset(20000 + 2000 * len(script))
    symbols = None
    outcome = None
    State.in_parse = True
    filters_leak = None
    try:
        with warnings.catch_warnings():
            warnings.simplefilter('ignore')
            f0 = list(warnings.filters)          # the caller's warnings set-up as parse_model finds it
            try:
                # "with syntax checking on": the default, or any true value the caller happens to hold (a NumPy boolean, 1)
                from .common import h64
                how = h64(['cs', script]) % 6
                case['check_syntax'] = ['omitted', 'omitted', 'True', '1', 'np.True_', 'np.bool_(1)'][how]
                if how < 2:
                    symbols = fsic.parse_model(script)
                else:
                    symbols = fsic.parse_model(script, check_syntax=[True, 1, np.True_, np.bool_(1)][how - 2])
            finally:
                if list(warnings.filters) != f0:
                    filters_leak = [f for f in warnings.filters if f not in f0][:2] or 'filters removed / reordered'
        outcome = 'accepted'
    except errors as e:
        outcome = type(e).__name__
    except mon.BudgetExceeded:
        State.in_parse = False
        ctx.violation('parser-step-budget-exceeded', f'parse_model did not return within {budget.budget} executed parser lines for input {script!r}', case)
        return
    except Exception as e:
        State.in_parse = False
        mech = 'foreign-exception'
        ctx.violation(mech, f'parse_model({script!r}) raised {type(e).__name__}: {str(e)[:200]}', case)
        return
    finally:
        State.in_parse = False
    if filters_leak is not None:
        ctx.violation('global-state-changed', f'parse_model({script!r}) left the process-wide warnings filters changed: {filters_leak!r}', case)
        return
    ctx.count('inputs_parsed')
    ctx.count('parser_steps', budget.steps)
    ctx.seen('outcomes', outcome)
    if State.exec_in_parse != e0:
        ctx.violation('parse-executes-code', f'parse_model({script!r}) triggered {State.exec_in_parse - e0} exec audit event(s)', case)
        return
    if State.canary_calls != c0 or State.prints != p0:
        ctx.violation('parse-executes-statements', f'parse_model({script!r}) ran model code (canary calls {State.canary_calls - c0}, prints {State.prints - p0})', case)
        return
    Model = None
    if symbols is not None:
        recorded = []

        def conv(s):
            recorded.append(s)
            return ('\n'.join('# ' + x for x in s.equation.splitlines()) + '\n' + s.code)
        try:
            with warnings.catch_warnings():
                warnings.simplefilter('ignore')
                f0 = list(warnings.filters)
                Model = fsic.build_model(symbols, converter=conv)
                m = Model(range(3))
                if list(warnings.filters) != f0:
                    filters_leak = True
            ctx.count('accepted_then_built')
        except Exception as e:
            names = {s.name for s in symbols if s.name}
            mech = 'reserved-name-not-instantiable' if (names & RESERVED and Model is not None) else 'accepted-but-unbuildable'
            ctx.violation(mech, f'parse_model accepted {script!r} but {"instantiation" if Model is not None else "build_model"} raised {type(e).__name__}: {str(e)[:200]}', case)
            return
        if filters_leak:
            ctx.violation('global-state-changed', f'building / instantiating {script!r} left the process-wide warnings filters changed', case)
            return
        if State.canary_calls != c0 or State.prints != p0:
            ctx.violation('build-executes-statements', f'building/instantiating {script!r} ran model code', case)
            return
        # ---- statement accounting --------------------------------------------------------------
        stmts, dangling = ref_split(script)
        if dangling:
            ctx.violation('dangling-input-accepted', f'{script!r} was accepted although the independent splitter finds an unfinished statement', case)
            return
        distinct = set()
        verbatim_blocks = 0
        for st in stmts:
            try:
                with warnings.catch_warnings():
                    warnings.simplefilter('ignore')
                    one = fsic.parse_model(st)
            except errors as e:
                ctx.violation('statement-accepted-only-in-context', f'statement {st!r} of the accepted script {script!r} is rejected on its own ({type(e).__name__})', case)
                return
            carrying = [s for s in one if s.equation is not None and s.code is not None]
            ctx.count('statements_accounted')
            if len(carrying) != 1:
                mech = 'multi-target-statement-duplicated' if len(carrying) > 1 else 'statement-silently-discarded'
                ctx.violation(mech, f'statement {st!r} contributes {len(carrying)} equation/verbatim block(s) instead of exactly one', case)
                return
            if carrying[0].name is None:
                verbatim_blocks += 1          # verbatim blocks are never merged
            else:
                distinct.add(carrying[0].code)   # identical equations are merged into one
        if len(recorded) != len(distinct) + verbatim_blocks:
            ctx.violation('statement-silently-discarded', f'{script!r}: {len(stmts)} statement(s) ({len(distinct)} distinct equations + {verbatim_blocks} verbatim) but the built model has {len(recorded)} code block(s)', case)
            return
    if symbols is not None:
        # the caller owns the returned list: emptying it must not reach a later call on the same input
        image = list(symbols)
        symbols.clear()
        budget.reset(20000 + 2000 * len(script))
        try:
            with warnings.catch_warnings():
                warnings.simplefilter('ignore')
                again = fsic.parse_model(script)
        except mon.BudgetExceeded:
            raise
        except Exception as e:
            again = e
        ctx.count('repeat_parses_compared')
        if again is symbols or again != image:
            ctx.violation('parse-carries-state-across-calls', f'parse_model({script!r}) a second time (after the first result was emptied by its caller) gives {again!r:.200}', case)
            return
    ctx.count('state_digests_compared')
    if digest() != d0:
        ctx.violation('global-state-changed', f'parsing/building {script!r} changed global state (warnings filters / np.geterr / cwd / parser module globals)', case)
        warnings.resetwarnings()
    if expect_canary:
        ctx.count('canary_scripts')


COLLISION_SCRIPTS = ['Y = X[-1]\nY = X[`t-1`]', 'Y = X[`t-1`]\nY = X[-1]', 'Y = X\nY = X[`t`]', 'Y = X[1] + Z\nY = X[`t+1`] + Z', 'Y = {a}[-2]\nY = {a}[`t-2`]',
                     'Y = X[`t`]\nY = X[0]\nZ = Y', "Y = X['t-1']\nY = X[-1]", 'Y = X [-1]\nY = X[`t-1` ]']


CANARY_SCRIPTS = [
    'Y = __fsic_canary__(1)', 'Y = print("x")', '```\n__fsic_canary__()\n```', '`__fsic_canary__()`', 'Y = 1/0', 'Y = __fsic_canary__(X[-1]) + 1/0',
    'Y = X\n```\nprint(1)\n__fsic_canary__(2)\n```\nZ = Y', 'Y = (__fsic_canary__(1) if __fsic_canary__(2) else 3)', 'Y = [__fsic_canary__(i) for i in range(3)][0]',
    'Y = np.sqrt(-(100.0))', 'Y = np.log(0)', 'Y = __import__("os").getcwd()', 'Y = (lambda: __fsic_canary__())()', 'Y = 10 ** 10 ** 10' if False else 'Y = 2 ** 0.5',
]


def mutate(rng, script):
    toks = list(script)
    # token-level: work on a crude tokenisation
    import re
    toks = re.findall(r'[A-Za-z_][A-Za-z_0-9.]*|[0-9.]+|\*\*|```|\s|.', script)
    for _ in range(rng.randint(1, 3)):
        if not toks:
            break
        op = rng.choice(['delete', 'duplicate', 'swap', 'insert', 'unbalance'])
        i = rng.randrange(len(toks))
        if op == 'delete':
            del toks[i]
        elif op == 'duplicate':
            toks.insert(i, toks[i])
        elif op == 'swap' and len(toks) > 1:
            j = rng.randrange(len(toks))
            toks[i], toks[j] = toks[j], toks[i]
        elif op == 'insert':
            toks.insert(i, rng.choice(TOKENS + ['{a}', '<e>', '`', "'", '"', '\u00e9', '}', '{}', '{0}', '{{', ',', '==', ':', '!', '%', '[t]', 'lambda', 'status']))
        else:
            toks.insert(i, rng.choice(['(', ')', '[', ']', '{', '}', '<', '>', '`', '```\n']))
    return ''.join(toks)


def run_shard(ctx):
    import fsic
    from fsic.exceptions import ParserError, SymbolError
    errors = (ParserError, SymbolError, IndentationError)
    install_canaries()
    rng = ctx.rng('c13')
    files = [os.path.join(common.REPO, 'fsic/parser.py')]
    with mon.StepBudget(files, 10 ** 9) as budget:
        idx = 0
        # 1. exhaustive strings
        for L in range(0, ctx.pick(3, 4) + 1):
            for tup in itertools.product(ALPHABET, repeat=L):
                idx += 1
                if not ctx.mine(idx):
                    continue
                one_input(ctx, budget, ''.join(tup), 'string', errors)
        # 2. exhaustive token sequences
        for L in range(1, ctx.pick(3, 4) + 1):
            for tup in itertools.product(TOKENS, repeat=L):
                idx += 1
                if not ctx.mine(idx):
                    continue
                one_input(ctx, budget, ''.join(tup), 'tokens', errors)
        # 2b. structural tokens (brackets, fences, newlines around a tiny statement): exhaustive short sequences
        STRUCT = ['(', ')', '```\n', '\n', 'Y = X', 'x', '=', '`']
        for L in range(1, ctx.pick(5, 6) + 1):
            for tup in itertools.product(STRUCT, repeat=L):
                idx += 1
                if not ctx.mine(idx):
                    continue
                one_input(ctx, budget, ''.join(tup), 'structure', errors)
        # 3. canary scripts and their mutations
        for k, s in enumerate(CANARY_SCRIPTS):
            one_input(ctx, budget, s, 'canary', errors, expect_canary=True)
            for j in range(ctx.pick(3, 40)):
                one_input(ctx, budget, mutate(rng, s), 'canary-mutation', errors, expect_canary=True)
        # 3b. two different statements for one variable whose *normalised equations* coincide (integer offset vs backticked
        #     expression index): either both count (rejected as a double definition) or neither is dropped silently
        for k, sc in enumerate(COLLISION_SCRIPTS):
            if not ctx.mine(k):
                continue
            one_input(ctx, budget, sc, 'collision', errors)
            for j in range(ctx.pick(3, 30)):
                one_input(ctx, budget, mutate(rng, sc), 'collision-mutation', errors)
        # 3c. statements with several items before the '=' (targets, keywords with an index, calls, literals), exhaustively
        ITEMS = ['Y', 'if[0]', 'in[-1]', 'is', 'not', '{a}', '<e>', 'exp', 'np.log', '`x`', "X['a']", '1', 'Z[1]', 'else']
        RHS = ['1, 2', 'X', 'if[0]', '(1, 2, 3)', '']
        for k2, combo in enumerate(itertools.chain(itertools.product(ITEMS, repeat=2), itertools.product(ITEMS, repeat=3))):
            if len(combo) == 3 and ctx.quick and k2 % 7:
                continue
            idx += 1
            if not ctx.mine(idx):
                continue
            for sep in (', ', ' '):
                for rhs in (RHS if len(combo) == 2 else RHS[:2]):
                    one_input(ctx, budget, sep.join(combo) + ' = ' + rhs, 'lhs-list', errors)
        # 3d. a statement with several targets next to statements that are not valid Python once translated, before and after it:
        #     every statement is checked, however many symbols the others carry
        MULTI = ['A, B = C, D', 'A, B, K = 1, 2, 3', 'P, Q = Q[-1], P[-1]']
        BROKEN = ['E = X +', 'Y = C + G = X - M', 'YD = *Y', 'F = 0.5(B)', 'H = (X', 'Z = X Y', '`x = (`']
        for k3, (mt, br) in enumerate(itertools.product(MULTI, BROKEN)):
            if not ctx.mine(k3):
                continue
            for script in (f'{mt}\n{br}', f'{br}\n{mt}', f'W = 1\n{mt}\nV = W\n{br}', f'{mt}\n{mt.replace("A", "A2").replace("B", "B2").replace("P", "P2").replace("Q", "Q2").replace("K", "K2")}\nV = 2\n{br}'):
                one_input(ctx, budget, script, 'multi-target-with-broken-statement', errors)
        # 4. mutation fuzzing of valid scripts
        rp = gen.RandomPrograms(rng, max_depth=3, max_eqs=4, max_names=6, big_offsets=True, underscore_rate=0.05, funcvar_rate=0.05, conflict_rate=0.1)
        for i in range(ctx.pick(300, 18000)):
            prog = rp.program()
            lay = gen.Layout(rng, noise=rng.choice([0.0, 0.3]), breaks=rng.choice([0.0, 0.3]), comments=rng.choice([0.0, 0.3]))
            script = gen.render_program(prog, lay)
            if rng.random() < 0.2:
                one_input(ctx, budget, script, 'valid', errors)
            one_input(ctx, budget, mutate(rng, script), 'mutation', errors)
    # 5. long tokens in a CPU-time bounded child (regular-expression matching is invisible to the step budget)
    long_tokens(ctx)


LONG_BASE = 'real_household_disposable_income_per_capita_after_housing_costs_and_transfers_'
CPU_BUDGET = 20   # CPU-seconds for one batch of a few dozen one-line scripts (the unchanged tree needs milliseconds)


def long_token_scripts():
    """Scripts built around one long token (identifier, dotted name, number, blank run): the part of 'terminates'
    that the line-level step budget cannot see, because regular-expression matching runs in C."""
    out = []
    for L in (12, 20, 28, 36, 48, 64, 96, 160):
        toks = [(LONG_BASE * 3)[:L], 'x' + '1' * L, '_' * L + 'a', 'A' * L, 'np.' + 'a' * L, ('ab.' * L)[:L] + 'c', 'a' + '_1' * (L // 2), '1' * L, '0.' + '5' * L,
                '1e' + '0' * L, 'a' + '.' * (L // 4) + 'b']
        for T in toks:
            for form in ('Y = {T}', 'Y = {T}[-1]', 'Y = {{{T}}}', 'Y = <{T}>', 'Y = {T}(X)', 'Y = {T} (X)', '{T} = X', 'Y = X + {T} * 2\nZ = {T}[-2]', 'Y = `{T}`',
                         'Y = {T} {T}', 'Y = {T}.{T}', '# {T}\nY = X', 'Y = X[{T}]', 'Y = X +' + ' ' * L + '{T}', 'Y = ({T}\n)', "Y = X['{T}']"):
                out.append(form.replace('{T}', T) if '{{' not in form else form.format(T=T))
    return out


def _parse_batch(scripts, wfd):
    import resource
    import fsic
    from fsic.exceptions import ParserError, SymbolError
    resource.setrlimit(resource.RLIMIT_CPU, (CPU_BUDGET, CPU_BUDGET + 5))
    for k, script in enumerate(scripts):
        os.write(wfd, b'S%d\n' % k)
        try:
            syms = fsic.parse_model(script)
            r = 'ok'
        except (ParserError, SymbolError, IndentationError):
            r = 'own'
        except BaseException as e:  # noqa: BLE001
            r = 'foreign:' + type(e).__name__
        os.write(wfd, b'R%d %s\n' % (k, r.encode()))


def long_tokens(ctx):
    import select
    import signal
    import time
    scripts = long_token_scripts()
    batch = 48
    for b in range(0, len(scripts), batch):
        if not ctx.mine(b // batch):
            continue
        chunk = scripts[b:b + batch]
        rfd, wfd = os.pipe()
        pid = os.fork()
        if pid == 0:
            try:
                os.close(rfd)
                _parse_batch(chunk, wfd)
                os._exit(0)
            except BaseException:  # noqa: BLE001
                os._exit(97)
        os.close(wfd)
        data = b''
        deadline = time.time() + 600          # wall-clock watchdog: only ever "inconclusive"
        timed_out = False
        while True:
            r, _, _ = select.select([rfd], [], [], max(0.0, deadline - time.time()))
            if not r:
                timed_out = True
                os.kill(pid, signal.SIGKILL)
                break
            chunk_data = os.read(rfd, 65536)
            if not chunk_data:
                break
            data += chunk_data
        os.close(rfd)
        _, status, ru = os.wait4(pid, 0)
        lines = data.decode(errors='replace').split('\n')
        started = [int(x[1:]) for x in lines if x.startswith('S')]
        results = {int(x[1:].split()[0]): x.split()[1] for x in lines if x.startswith('R') and len(x.split()) > 1}
        ctx.count('long_token_inputs_parsed', len(results))
        for k, r in results.items():
            ctx.evaluation(chunk[k], nontrivial='=' in chunk[k])
            if r.startswith('foreign:'):
                ctx.violation('foreign-exception', f'parse_model({chunk[k][:120]!r}...) raised {r[8:]}', {'script': chunk[k], 'kind': 'long-token'})
        if timed_out:
            ctx.inconclusive_because(f'long-token batch {b // batch}: wall-clock watchdog (600 s) fired with {ru.ru_utime:.1f} CPU-seconds used')
        elif os.WIFSIGNALED(status) and os.WTERMSIG(status) in (signal.SIGXCPU, signal.SIGKILL):
            k = started[-1] if started else 0
            ctx.violation('parse-does-not-terminate', f'parse_model on a {len(chunk[k])}-character script did not return within {CPU_BUDGET} CPU-seconds '
                          f'(the batch of {len(results)} scripts before it took milliseconds): {chunk[k][:160]!r}', {'script': chunk[k], 'kind': 'long-token'})
        elif not (os.WIFEXITED(status) and os.WEXITSTATUS(status) == 0):
            ctx.violation('parse-child-died', f'child parsing long-token scripts ended with status {status} after {chunk[started[-1]][:120] if started else None!r}', {'script': chunk[started[-1]] if started else '', 'kind': 'long-token'})


def replay(ctx, case):
    if case.get('kind') == 'long-token':
        ctx.evaluation(case['script'], nontrivial=True)
        ctx.inconclusive_because('long-token cases are replayed by re-running the shard (CPU-time bounded child); the script is in the replay file')
        return
    import fsic
    from fsic.exceptions import ParserError, SymbolError
    install_canaries()
    files = [os.path.join(common.REPO, 'fsic/parser.py')]
    with mon.StepBudget(files, 10 ** 9) as budget:
        one_input(ctx, budget, case['script'], case.get('kind', 'replay'), (ParserError, SymbolError, IndentationError))
