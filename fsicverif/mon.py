"""sys.monitoring helpers: logical step budgets (bounded restatement of termination)."""
import os
import sys


class BudgetExceeded(BaseException):
    """Raised inside the monitored code when the logical step budget is exhausted."""


class StepBudget:
    """Counts LINE events in the given source files; raises BudgetExceeded in the
    running code when more than `budget` lines have executed.  Decided on logical
    steps, never on wall-clock."""

    def __init__(self, files, budget):
        self.files = {os.path.realpath(f) for f in files}
        self.budget = budget
        self.steps = 0
        self.tripped = False
        self.active = False

    def __enter__(self):
        mon = sys.monitoring
        self.tool = mon.PROFILER_ID
        try:
            mon.use_tool_id(self.tool, 'fsicverif-steps')
        except ValueError:
            self.tool = mon.DEBUGGER_ID
            mon.use_tool_id(self.tool, 'fsicverif-steps')
        cache = {}

        def on_line(code, line):
            ok = cache.get(code)
            if ok is None:
                ok = cache[code] = os.path.realpath(code.co_filename) in self.files
            if not ok:
                return mon.DISABLE
            self.steps += 1
            if self.steps > self.budget and not self.tripped:
                self.tripped = True
                mon.set_events(self.tool, 0)   # raise exactly once
                raise BudgetExceeded(f'{self.steps} steps')

        def on_jump(code, src, dst):
            # backward jumps: loops whose body sits on one source line fire no further LINE events
            if dst < src:
                return on_line(code, -1)

        mon.register_callback(self.tool, mon.events.LINE, on_line)
        mon.register_callback(self.tool, mon.events.JUMP, on_jump)
        mon.set_events(self.tool, mon.events.LINE | mon.events.JUMP)
        self.active = True
        return self

    def reset(self, budget=None):
        """Start counting afresh (cheap: the tool stays registered)."""
        mon = sys.monitoring
        if budget is not None:
            self.budget = budget
        self.steps = 0
        if self.tripped:
            self.tripped = False
            mon.set_events(self.tool, mon.events.LINE | mon.events.JUMP)

    def __exit__(self, *a):
        mon = sys.monitoring
        mon.set_events(self.tool, 0)
        mon.register_callback(self.tool, mon.events.LINE, None)
        mon.register_callback(self.tool, mon.events.JUMP, None)
        mon.free_tool_id(self.tool)
        mon.restart_events()
        self.active = False
        return False
