"""C02 - per-period solve: status, iteration count, result flag and convergence agree.

Monitor: scripted models play every sequence of per-pass outcomes; an instrumented
subclass logs every pass and hook call; a full snapshot is taken before and after; the
observations are compared with the reference state machine `scripted.ref_solve_t`.
Parser-built contractive / divergent / oscillating systems are solved with a
pass-recording subclass and convergence is recomputed from the recorded check values."""
import itertools
import math
import warnings

import numpy as np

from . import scripted

PROPERTY = 'C02'
LEVEL = 'exploration'
RULE = ('every sequence of per-pass outcome pairs (A in {same, move<tol, move==tol, move>tol}, B in {same, move>tol}) up to '
        'length L (quick 3, thorough 4) x max_iter 0..4/5 x min_iter 0..max_iter+1, crossed with sampled tol in {0.5, 1e-10, 0}, '
        'failures, catch_first_error, check-variable subsets, positive/negative t, solve_t/solve_period, offsets in and out '
        'of span, pre-existing non-finite values; plus linear equation systems built by the parser (contractive, divergent, '
        '2-cycle). non-trivial = distinct case tuple that performed at least one pass or was rejected up front')
ASSUMPTIONS = ['outcome moves are exact binary fractions of tol so that "moved by exactly tol" is representable',
               'pre-existing non-finite values are rejected only under errors="raise"; the finite-domain clauses are checked under errors="raise" and "ignore"']
ANCHORS = [('fsic/core/models.py', 'BaseModel.solve_t'), ('fsic/core/interfaces.py', 'SolverMixin.solve_period')]
REQUIRED_COUNTERS = {'runs_compared': 2000, 'passes_observed': 2000, 'snapshots_compared': 2000, 'parser_models_solved': 20}
LEVEL_TEXT = ('Reference state-machine monitor over an exhaustive (bounded) enumeration of pass-outcome sequences and solver '
              'options, observing pass counts, hook calls, every cell before/after; exploration bounded by sequence length.')
LEVEL_NOTE = 'Trusted: the 60-line reference machine in fsicverif/scripted.py; the scripted workload applies outcomes identically on both sides.'
TECHNIQUE = 'scripted-model workload + reference state machine + call log and state snapshots (runtime monitor)'
PAIRS = [(a, b) for a in scripted.FINITE_OUT for b in ('same', 'big')] + [('huge', 'huge'), ('nhuge', 'same')]


def nshards(tier):
    return 16


_VARIANTS = {}


def model_variant(Model, name):
    """The scripted model class with an extension mixin in front of it (the mixins must be transparent to solve_t / hooks)."""
    key = (id(Model), name)
    if key not in _VARIANTS:
        from fsic.extensions import AliasMixin, TracerMixin
        from fsic.extensions.model import PandasIndexFeaturesMixin
        if name == 'plain':
            _VARIANTS[key] = Model
        else:
            mixin = {'traced': TracerMixin, 'aliased': AliasMixin, 'pandas': PandasIndexFeaturesMixin}[name]
            attrs = {'ALIASES': {'Alpha': 'A', 'Beta': 'B'}} if name == 'aliased' else {}
            _VARIANTS[key] = type(f'{name.capitalize()}Scripted', (mixin, Model), attrs)
    return _VARIANTS[key]


def run_case(ctx, Model, case):
    if 'model_class' not in case:
        from .common import h64
        case['model_class'] = ['plain', 'plain', 'plain', 'traced', 'aliased', 'pandas'][h64(['cls', case]) % 6]
    ctx.seen('model_classes', case['model_class'])
    if 'solver_tol' not in case:
        from .common import h64
        k = h64(['stol', case]) % 24
        if k < 6:
            # extreme tolerances: nothing moves by less than NaN, 0 or a negative number; everything finite moves by less than inf
            case['solver_tol'] = [math.nan, math.inf, 0.0, -1.0, np.float64(0.5), np.float32(0.5)][k]
    if 'span_kind' not in case:
        from .common import h64
        case['span_kind'] = scripted.SPAN_KINDS[h64(['span', case]) % len(scripted.SPAN_KINDS)]
    if 'history' not in case:
        from .common import h64
        case['history'] = [None, None, None, None, 'copy', 'deepcopy', 'reindex', 'add-variable'][h64(['hist', case]) % 8]
    if 'caller_errstate' not in case:
        from .common import h64
        case['caller_errstate'] = [None, None, None, None, 'ignore', 'raise', 'warn', {'over': 'ignore', 'invalid': 'raise', 'divide': 'warn'},
                                   {'over': 'raise', 'invalid': 'ignore', 'divide': 'ignore'}, {'over': 'warn', 'invalid': 'ignore', 'divide': 'raise'}][h64(['es', case]) % 10]
    if 'endogenous' not in case:
        from .common import h64
        case['endogenous'] = [['A'], ['B'], []][h64(['endo', case]) % 3] if not case.get('offset') and h64(['endo?', case]) % 5 == 0 else None
    if 'hook_binding' not in case:
        from .common import h64
        case['hook_binding'] = 'instance' if case['model_class'] == 'plain' and h64(['hb', case]) % 4 == 0 else 'class'
    if 'arg_style' not in case:
        from .common import h64
        case['arg_style'] = ['plain', 'plain', 'omit-defaults', 'omit-defaults', 'explicit-defaults', 'numpy-ints', 'bools'][h64(['as', case]) % 7]
    if 'caller_filter' not in case:
        from .common import h64
        case['caller_filter'] = ['ignore', 'ignore', 'ignore', 'error', 'error', 'always', 'default'][h64(['wf', case]) % 7]
    if 't_numpy' not in case:
        from .common import h64
        case['t_numpy'] = h64(['tnp', case]) % 5 == 0       # the position given as a NumPy integer
    Model = model_variant(Model, case['model_class'])
    if 'write_mode' not in case:
        # how the scripted model stores its outcome: in place, or through a whole-series write (deterministic in the case)
        from .common import h64
        case['write_mode'] = scripted.WRITE_MODES[h64(case) % len(scripted.WRITE_MODES)]
    ctx.seen('write_modes', case['write_mode'])
    if 'prior_record' not in case:
        from .common import h64
        k = h64(['prior', case]) % 8
        case['prior_record'] = [['.', 5], ['F', 9], ['E', 2], ['S', 1]][k] if k < 4 else None
    n = case.get('n', 4)
    tn = case['t'] if case['t'] >= 0 else case['t'] + n
    start = dict(case['start'])
    reject = None
    if case.get('offset') and case['min_iter'] <= case['max_iter']:
        src = tn + case['offset']
        if not 0 <= src < n:
            reject = 'IndexError'
        else:
            start = dict(case['offset_source'])
    check = case['check'] if case.get('check') is not None else ['A', 'B']
    if 'X' in check:
        start['X'] = 1.0
    eff_script, eff_before, eff_after = scripted.effective_faults(case)
    want = scripted.ref_solve_t(eff_script, start, check, min_iter=case['min_iter'], max_iter=case['max_iter'],
                                tol=case.get('solver_tol', case['tol']), scale=case['tol'], failures=case['failures'], errors=case['errors'], cfe=case['cfe'],
                                before_fault=eff_before, after_fault=eff_after)
    if reject:
        want = dict(kind='exc', value=reject, nothing_changed=True, evals=0, befores=0, afters=0, stored=dict(case['start']))
    if want.get('nothing_changed'):
        want['stored'] = dict(case['start'])
    obs = scripted.run_solve_t(Model, case)
    ctx.count('runs_compared')
    ctx.count('passes_observed', len(obs['evals']))
    ctx.count('hook_calls_observed', len(obs['befores']) + len(obs['afters']))
    ctx.count('snapshots_compared')
    ctx.seen('exit_paths', f'{want.get("kind")}:{want.get("value")}:{want.get("status")}')
    for mech, msg in scripted.compare(case, want, obs):
        if case['max_iter'] == 0 and obs.get('exc') == 'UnboundLocalError':
            mech = 'max-iter-zero-unbound-local'
        elif mech == 'rejected-call-mutates' and case.get('offset'):
            mech = 'offset-copied-before-rejection'
        ctx.violation(mech, msg + f' | observed: {({k: v for k, v in obs.items() if k not in ("before_state", "after_state")})}', case)
    return obs


def option_sets(rng, k):
    out = []
    for _ in range(k):
        out.append(dict(tol=rng.choice([0.5, 0.5, 1e-10, 0.0]), failures=rng.choice(['raise', 'ignore']), cfe=rng.choice([True, False]),
                        errors=rng.choice(['raise', 'raise', 'ignore']), check=rng.choice([None, None, ['A'], ['B'], ['A', 'A'], ['B', 'A'], []]),
                        t=rng.choice([1, 1, -2, 0, 3, -1]), entry=rng.choice(['solve_t', 'solve_t', 'solve_period'])))
    return out


def run_shard(ctx):
    Model = scripted.make_model_class()
    rng = ctx.rng('c02')
    L = ctx.pick(3, 4)
    max_max = ctx.pick(4, 5)
    k_opts = ctx.pick(10, 16)
    idx = 0
    for length in range(0, L + 1):
        for script in itertools.product(PAIRS, repeat=length):
            for max_iter in range(0, max_max + 1):
                for min_iter in range(0, max_iter + 2):
                    idx += 1
                    if not ctx.mine(idx):
                        continue
                    for o in option_sets(rng, k_opts):
                        case = dict(script=[list(p) for p in script], min_iter=min_iter, max_iter=max_iter, start={'A': 0.0, 'B': 0.0}, n=4, **o)
                        if rng.random() < 0.15:
                            case['start'] = {'A': 1.0, 'B': -2.5}
                        if rng.random() < 0.12:
                            case['offset'] = rng.choice([-1, 1, 2, -2, -5, 5])
                            case['offset_source'] = {'A': rng.choice([0.0, 3.0]), 'B': rng.choice([0.0, 7.0, math.nan])}
                            if rng.random() < 0.5:
                                # the exogenous X is watched for convergence as well: it is read where it stands (period t) - an offset
                                # copies endogenous values only - so what X holds in the *source* period is beside the point
                                case['check'] = rng.choice([['A', 'X'], ['X', 'B', 'A'], ['X']])
                                case['x_at_source'] = rng.choice(['nan', 'inf', 'finite'])
                        if rng.random() < 0.05:
                            case['start'] = {'A': rng.choice([math.nan, math.inf, 0.0]), 'B': 0.0}
                        ctx.evaluation(case, nontrivial=True, sample=case)
                        run_case(ctx, Model, case)
    parser_models(ctx)
    integer_models(ctx)


def integer_models(ctx):
    """Models whose check variables are integers (dtype=int) of a magnitude at which float64 cannot tell neighbours apart: a step
    of 1 at 2**60 is a move of 1 - not less than tol = 0.5 - and a step of 0 is no move.  The verdict is recomputed in exact integer
    arithmetic from the scripted steps."""
    import fsic
    rng = ctx.rng('c02-int')

    class IntModel(fsic.BaseModel):
        ENDOGENOUS = ['K', 'J']
        NAMES = ENDOGENOUS
        CHECK = ENDOGENOUS

        def _evaluate(self, t, *, iteration=None, **kw):
            steps = self.__dict__['v_steps']
            dk, dj = steps[iteration - 1] if iteration - 1 < len(steps) else (0, 0)
            self._K[t] += dk
            self._J[t] += dj
            self.__dict__['v_passes'] = self.__dict__.get('v_passes', 0) + 1

    for i in range(ctx.pick(150, 3000)):
        base = rng.choice([2 ** 60, -2 ** 60, 2 ** 53 + 1, 10, 2 ** 62])
        steps = [(rng.choice([0, 0, 1, -1, 2, 3]), rng.choice([0, 0, 0, 1])) for _ in range(rng.randrange(0, 5))]
        tol = rng.choice([0.5, 1.0, 1.5, 2.5, 1e-10])
        max_iter = rng.choice([1, 2, 4, 6])
        min_iter = rng.choice([0, 0, 1, 2, 3])
        if min_iter > max_iter:
            min_iter = max_iter
        failures = rng.choice(['raise', 'ignore'])
        case = dict(kind='integer-model', base=base, steps=steps, tol=tol, max_iter=max_iter, min_iter=min_iter, failures=failures)
        ctx.evaluation(case, nontrivial=True, sample=case)
        m = IntModel(range(3), dtype=int)
        m.K = base
        m.J = -base
        m.__dict__['v_steps'] = steps
        res = {}
        with warnings.catch_warnings():
            warnings.simplefilter('ignore')
            try:
                res['ret'] = m.solve_t(1, tol=tol, max_iter=max_iter, min_iter=min_iter, failures=failures)
            except Exception as e:
                res['exc'] = type(e).__name__
        ctx.count('integer_models_solved')
        want_k = None
        for k in range(1, max_iter + 1):
            dk, dj = steps[k - 1] if k - 1 < len(steps) else (0, 0)
            if k >= max(1, min_iter) and abs(dk) < tol and abs(dj) < tol:
                want_k = k
                break
        passes, status, its = m.__dict__.get('v_passes', 0), str(m.status[1]), int(m.iterations[1])
        total = sum(s_[0] for s_ in steps[:passes])
        if int(m.K[1]) != base + total:
            ctx.violation('stored-value', f'integer model: K[t] = {int(m.K[1])} after {passes} passes, the steps add up to {base + total}', case)
        elif want_k is not None:
            if not (res.get('ret') is True and status == '.' and its == want_k and passes == want_k):
                ctx.violation('pass-count', f'integer check variables near {base}: steps {steps} first stay below tol {tol} at pass {want_k}; solver: {res}, status {status}, iterations {its}, passes {passes}', case)
        else:
            ok = status == 'F' and its == max_iter and passes == max_iter and (res.get('exc') == 'NonConvergenceError' if failures == 'raise' else res.get('ret') is False)
            if not ok:
                ctx.violation('pass-count', f'integer check variables near {base}: steps {steps} never stay below tol {tol} within {max_iter} passes; solver: {res}, status {status}, iterations {its}, passes {passes}', case)


def parser_models(ctx):
    """Linear systems x = a*y + c ; y = b*x + d built by the real parser and solved by the
    real solver with a pass-recording subclass: convergence is recomputed from the
    recorded check values."""
    import fsic
    rng = ctx.rng('c02-parser')
    count = ctx.pick(40, 600)
    for i in range(count):
        kind = rng.choice(['contractive', 'divergent', 'cycle', 'immediate'])
        if kind == 'contractive':
            a, b = rng.choice([0.5, -0.5, 0.25, 0.9]), rng.choice([0.5, 0.75, -0.25])
        elif kind == 'divergent':
            a, b = rng.choice([2.0, -3.0]), rng.choice([1.5, 2.0])
        elif kind == 'cycle':
            a, b = -1.0, 1.0
        else:
            a, b = 0.0, 0.0
        script = 'x = {a} * y + {c}\ny = {b} * x[0] + <d>'
        Base = fsic.build_model(fsic.parse_model(script))

        class Rec(Base):
            def _evaluate(self, t, **kw):
                super()._evaluate(t, **kw)
                self.__dict__.setdefault('v_passes', []).append([float(self._x[t]), float(self._y[t])])

        tol = rng.choice([1e-10, 1e-3, 0.5])
        max_iter = rng.choice([1, 2, 5, 30, 200])
        min_iter = rng.choice([0, 0, 1, 3])
        if min_iter > max_iter:
            min_iter = max_iter
        failures = rng.choice(['raise', 'ignore'])
        m = Rec(range(5), a=a, b=b, c=rng.choice([1.0, -2.0]), d=rng.choice([0.5, 3.0]))
        m.x[2], m.y[2] = rng.choice([0.0, 1.0]), rng.choice([0.0, -1.0])
        start = [float(m.x[2]), float(m.y[2])]
        case = dict(kind='parser', script=script, a=a, b=b, tol=tol, max_iter=max_iter, min_iter=min_iter, failures=failures, start=start)
        ctx.evaluation(case, nontrivial=True, sample=case)
        res = {}
        with warnings.catch_warnings():
            warnings.simplefilter('ignore')
            try:
                res['ret'] = m.solve_t(2, tol=tol, max_iter=max_iter, min_iter=min_iter, failures=failures, errors='ignore')
            except Exception as e:
                res['exc'] = type(e).__name__
        passes = m.__dict__.get('v_passes', [])
        ctx.count('parser_models_solved')
        ctx.count('passes_observed', len(passes))
        # recompute the verdict from the recorded per-pass check values
        prev = start
        want_k = None
        for k, cur in enumerate(passes, start=1):
            if not all(map(math.isfinite, cur)) or not all(map(math.isfinite, prev)):
                prev = cur
                continue
            if k >= max(1, min_iter) and all(abs(c - p) < tol for c, p in zip(cur, prev)):
                want_k = k
                break
            prev = cur
        nonfinite = any(not all(map(math.isfinite, p)) for p in passes)
        if nonfinite:
            ctx.count('parser_models_nonfinite_skipped')
            continue
        status, its = str(m.status[2]), int(m.iterations[2])
        if want_k is not None:
            if not (res.get('ret') is True and status == '.' and its == want_k and len(passes) == want_k):
                ctx.violation('parser-model-convergence', f'recorded passes converge at pass {want_k}; solver: {res}, status {status}, iterations {its}, passes {len(passes)}', case)
        else:
            ok = status == 'F' and its == max_iter and len(passes) == max_iter and (res.get('exc') == 'NonConvergenceError' if failures == 'raise' else res.get('ret') is False)
            if not ok:
                ctx.violation('parser-model-nonconvergence', f'recorded passes never converge within {max_iter}; solver: {res}, status {status}, iterations {its}, passes {len(passes)}', case)
        ctx.seen('parser_model_kinds', f'{kind}:{status}')


def replay(ctx, case):
    if case.get('kind') == 'parser':
        ctx.inconclusive_because('parser-model cases are replayed by re-running the shard with the same seed')
        return
    for k in ('start', 'offset_source'):
        if case.get(k):
            case[k] = {kk: float(vv) if not isinstance(vv, str) else float(vv.replace('inf', 'inf')) for kk, vv in case[k].items()}
    ctx.evaluation(case, nontrivial=True)
    run_case(ctx, scripted.make_model_class(), case)
