"""Shared plumbing: repository location, deterministic RNGs, hashing, JSON-safe
conversion and the per-shard context object every property module reports into."""
import hashlib
import json
import math
import os
import random
import sys
import time

VERIF_ROOT = os.path.dirname(os.path.dirname(os.path.abspath(__file__)))
# The tree under test.  Always /repo for registered checks; scratch copies used to
# validate the monitors themselves are selected with FSIC_REPO.
REPO = os.environ.get('FSIC_REPO', '/repo')
GUARD = 'FSIC_VERIF'


def use_repo():
    """Make `import fsic` resolve to the working tree under test."""
    if sys.path[0] != REPO:
        sys.path.insert(0, REPO)
    os.environ[GUARD] = '1'
    import fsic  # noqa: F401
    here = os.path.dirname(os.path.abspath(fsic.__file__))
    if os.path.realpath(here) != os.path.realpath(os.path.join(REPO, 'fsic')):
        raise RuntimeError(f'fsic imported from {here}, expected {REPO}/fsic')
    return fsic


def resolve_anchors(anchors):
    """Anchors are (relative file, first line, last line) or (relative file,
    'Class.method' | 'function' | 'NAME' assignment); names are resolved against the
    current source so that line ranges survive edits to the repository."""
    import ast
    out = []
    cache = {}
    for a in anchors:
        if len(a) == 3:
            out.append(tuple(a))
            continue
        rel, qual = a
        if rel not in cache:
            try:
                cache[rel] = ast.parse(open(os.path.join(REPO, rel)).read())
            except Exception:
                cache[rel] = None
        tree = cache[rel]
        if tree is None:
            continue
        node = tree
        for part in qual.split('.'):
            found = None
            for child in ast.iter_child_nodes(node):
                if isinstance(child, (ast.FunctionDef, ast.ClassDef)) and child.name == part:
                    found = child
                    break
                if isinstance(child, (ast.Assign, ast.AnnAssign)):
                    targets = child.targets if isinstance(child, ast.Assign) else [child.target]
                    if any(isinstance(t, ast.Name) and t.id == part for t in targets):
                        found = child
                        break
            node = found
            if node is None:
                break
        if node is not None:
            first = node.lineno
            if isinstance(node, ast.FunctionDef) and node.body:
                # skip the signature and docstring: start at the first real statement
                body = node.body
                if isinstance(body[0], ast.Expr) and isinstance(getattr(body[0], 'value', None), ast.Constant) and isinstance(body[0].value.value, str) and len(body) > 1:
                    first = body[1].lineno
                else:
                    first = body[0].lineno
            out.append((rel, first, node.end_lineno))
    return out


def jsonable(x, depth=0):
    """Best-effort conversion of a case description to JSON-serialisable data."""
    import numpy as np
    if depth > 12:
        return repr(x)
    if x is None or isinstance(x, (bool, int, str)):
        return x
    if isinstance(x, float):
        if math.isnan(x):
            return 'nan'
        if math.isinf(x):
            return 'inf' if x > 0 else '-inf'
        return x
    if isinstance(x, np.generic):
        return jsonable(x.item(), depth + 1)
    if isinstance(x, np.ndarray):
        return jsonable(x.tolist(), depth + 1)
    if isinstance(x, dict):
        return {str(k): jsonable(v, depth + 1) for k, v in x.items()}
    if isinstance(x, (list, tuple, set, frozenset, range)):
        return [jsonable(v, depth + 1) for v in x]
    return repr(x)


def unjson_float(x):
    if x == 'nan':
        return math.nan
    if x == 'inf':
        return math.inf
    if x == '-inf':
        return -math.inf
    return x


def h64(obj):
    """Stable 64-bit hash of a (JSON-able) case key."""
    if not isinstance(obj, (str, bytes)):
        obj = json.dumps(jsonable(obj), sort_keys=True, separators=(',', ':'))
    if isinstance(obj, str):
        obj = obj.encode('utf-8', 'surrogatepass')
    return int.from_bytes(hashlib.blake2b(obj, digest_size=8).digest(), 'big')


class Ctx:
    """Per-shard reporting context.

    evaluation(key, nontrivial, sample): one explored case.
    count(name, n): monitor event counters (reads, writes, passes, snapshots...).
    seen(name, value): distinct oracle outcomes observed (e.g. solver exit paths).
    violation(mech, what, case): a refuting observation; `mech` is the classifier's
        mechanism key (None if unclassified); `case` is a concrete, replayable input.
    """

    MAX_VIOL_PER_MECH = 8
    MAX_SAMPLES = 6
    MAX_SEEN = 400

    def __init__(self, prop, tier, seed, shard, nshards, replaying=False):
        self.prop, self.tier, self.seed = prop, tier, seed
        self.shard, self.nshards = shard, nshards
        self.replaying = replaying
        self.evaluations = 0
        self.hashes = set()
        self.samples = []
        self.counters = {}
        self.seen_sets = {}
        self.violations = {}      # mech -> [ {what, case} ]
        self.violation_counts = {}
        self.inconclusive = []
        self.last_case = None
        self.t0 = time.time()
        self._sample_every = 1

    # -- deterministic randomness -------------------------------------------------
    def rng(self, name=''):
        return random.Random(f'{self.seed}:{self.prop}:{self.shard}:{name}')

    def mine(self, i):
        """Round-robin ownership of an enumerated case index."""
        return i % self.nshards == self.shard

    @property
    def quick(self):
        return self.tier == 'quick'

    def pick(self, quick, thorough):
        return quick if self.tier == 'quick' else thorough

    # -- reporting ----------------------------------------------------------------
    def evaluation(self, key, nontrivial=True, sample=None):
        self.evaluations += 1
        self.last_case = sample if sample is not None else key
        if nontrivial:
            self.hashes.add(h64(key))
        if sample is not None and len(self.samples) < self.MAX_SAMPLES:
            # spread samples out: take evaluations 1, 2, 4, 8, ...
            if self.evaluations >= self._sample_every:
                self.samples.append(jsonable(sample))
                self._sample_every = max(self._sample_every * 4, self.evaluations + 1)

    def count(self, name, n=1):
        self.counters[name] = self.counters.get(name, 0) + n

    def seen(self, name, value):
        s = self.seen_sets.setdefault(name, set())
        if len(s) < self.MAX_SEEN:
            s.add(value if isinstance(value, str) else json.dumps(jsonable(value), sort_keys=True))

    def violation(self, mech, what, case):
        k = mech or ''
        self.violation_counts[k] = self.violation_counts.get(k, 0) + 1
        lst = self.violations.setdefault(k, [])
        if len(lst) < self.MAX_VIOL_PER_MECH:
            lst.append({'what': str(what)[:2000], 'case': jsonable(case)})

    def inconclusive_because(self, reason):
        self.inconclusive.append(str(reason))

    def elapsed(self):
        return time.time() - self.t0

    def result(self):
        return {
            'shard': self.shard,
            'evaluations': self.evaluations,
            'samples': self.samples,
            'counters': self.counters,
            'seen': {k: sorted(v) for k, v in self.seen_sets.items()},
            'violations': self.violations,
            'violation_counts': self.violation_counts,
            'inconclusive': self.inconclusive,
            'wall_s': self.elapsed(),
        }
