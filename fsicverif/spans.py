"""Catalogue of span types and the reference label -> position model (C05, C10, C12,
C16, C19).  The model is deliberately tiny: a label addresses the first position whose
span element equals it under Python `==`; label slices are inclusive of their stop."""
import numpy as np


class SpanSpec:
    """A concrete span plus, for every position, the label objects that address it.

    kind        name of the span type
    make()      builds a fresh span object of that type
    labels      per position: list of label spellings that must resolve to exactly it
    absent      labels that are not in the span
    group_labels  {label: (first, last)} labels resolving to a *range* of positions
                  (pandas partial-string indexing, e.g. a year on a quarterly index)
    """

    def __init__(self, kind, make, labels, absent, group_labels=None, text_labels=None):
        self.kind = kind
        self.make = make
        self.labels = labels
        self.absent = absent
        self.group_labels = group_labels or {}
        # per position: text usable between backticks in eval() expressions (or None)
        self.text_labels = text_labels or [None] * len(labels)
        self.n = len(labels)

    def primary(self, i):
        return self.labels[i][0]

    def describe(self):
        return {'kind': self.kind, 'n': self.n, 'labels': [repr(l[0]) for l in self.labels]}


def catalogue(n, origin=0, rng=None):
    """All span specs of length n (n >= 1)."""
    import pandas as pd
    out = []
    # integer range with non-zero origin
    for start in (0, 2000, -3):
        lab = list(range(start + origin, start + origin + n))
        out.append(SpanSpec(f'range({start + origin},..)', (lambda a=lab: range(a[0], a[0] + len(a))),
                            [[x] for x in lab], [lab[0] - 1, lab[-1] + 1, 'x', None, 2.5],
                            text_labels=[str(x) for x in lab]))
    # stepped and descending ranges (labels absent *between* members must not alias a neighbour)
    a0 = 2000 + origin
    lab = list(range(a0, a0 + 5 * n, 5))
    out.append(SpanSpec('range(step=5)', (lambda a0=a0, n=n: range(a0, a0 + 5 * n, 5)), [[x] for x in lab],
                        [a0 + 1, a0 + 4, a0 - 5, a0 + 5 * n, a0 + 5 * (n - 1) + 2], text_labels=[str(x) for x in lab]))
    lab = list(range(a0 + 10, a0 + 10 - 2 * n, -2))
    out.append(SpanSpec('range(step=-2)', (lambda a0=a0, n=n: range(a0 + 10, a0 + 10 - 2 * n, -2)), [[x] for x in lab],
                        [a0 + 9, a0 + 12, a0 + 10 - 2 * n, a0 + 10 - 2 * n + 1], text_labels=[str(x) for x in lab]))
    # list of ints (non-contiguous, unsorted)
    lab = [(7 * i * i + 3 * i + 11) % 101 + 1000 for i in range(n)]
    if len(set(lab)) == n:
        out.append(SpanSpec('list[int] unsorted', (lambda a=lab: list(a)), [[x] for x in lab],
                            [999, 5000, 'a'], text_labels=[str(x) for x in lab]))
    # plain lists / tuples of consecutive years (a window that rolls with `origin`: the same labels at other positions)
    lab = list(range(3000 + origin, 3000 + origin + n))
    out.append(SpanSpec('list[int] consecutive', (lambda a=lab: list(a)), [[x] for x in lab], [lab[0] - 1, lab[-1] + 1, str(lab[0])], text_labels=[str(x) for x in lab]))
    out.append(SpanSpec('tuple[int] consecutive', (lambda a=lab: tuple(a)), [[x] for x in lab], [lab[0] - 1, lab[-1] + 1], text_labels=[str(x) for x in lab]))
    # list of strings
    names = ['a', 'b', 'c', 'dd', 'e1', 'F', 'g_', 'h', 'i', 'j', 'k', 'l', 'm', 'n', 'o', 'p'][:n]
    if len(names) == n:
        out.append(SpanSpec('list[str]', (lambda a=names: list(a)), [[x] for x in names], ['zz', 'A', '', 0],
                            text_labels=list(names)))
        out.append(SpanSpec('tuple[str]', (lambda a=names: tuple(a)), [[x] for x in names], ['zz', 'A', 1]))
    # list of mixed hashables (unique under ==)
    mixed = [(1, 2), 'x', 3, 2.5, frozenset({1}), None, ('a',), 'y', -7, 10 ** 20, 'z', b'q', 0, 1.25, 'w', 99][:n]
    if len(mixed) == n:
        out.append(SpanSpec('list[mixed hashables]', (lambda a=mixed: list(a)), [[x] for x in mixed],
                            ['nope', (2, 1), 4, 2.6]))
    # numpy arrays
    lab = list(range(1990 + origin, 1990 + origin + n))
    out.append(SpanSpec('ndarray[int64]', (lambda a=lab: np.array(a)), [[x, np.int64(x)] for x in lab],
                        [1989 + origin, lab[-1] + 1], text_labels=[str(x) for x in lab]))
    if len(names) == n:
        out.append(SpanSpec('ndarray[str]', (lambda a=names: np.array(a)), [[x] for x in names], ['zz', 'A'],
                            text_labels=list(names)))
    # pandas Index (sorted and unsorted ints, strings)
    out.append(SpanSpec('pd.Index[int]', (lambda a=lab: pd.Index(a)), [[x] for x in lab], [lab[0] - 1, lab[-1] + 5],
                        text_labels=[str(x) for x in lab]))
    rev = lab[::-1]
    out.append(SpanSpec('pd.Index[int] descending', (lambda a=rev: pd.Index(a)), [[x] for x in rev], [rev[0] + 1],
                        text_labels=[str(x) for x in rev]))
    if len(names) == n:
        out.append(SpanSpec('pd.Index[str]', (lambda a=names: pd.Index(a)), [[x] for x in names], ['zz'],
                            text_labels=list(names)))
    # pandas RangeIndex
    out.append(SpanSpec('pd.RangeIndex', (lambda n=n: pd.RangeIndex(5, 5 + n)), [[x] for x in range(5, 5 + n)], [4, 5 + n],
                        text_labels=[str(x) for x in range(5, 5 + n)]))
    # annual PeriodIndex
    pa = pd.period_range(start=str(2000 + origin), periods=n, freq='Y')
    out.append(SpanSpec('pd.PeriodIndex[Y]', (lambda n=n, o=origin: pd.period_range(start=str(2000 + o), periods=n, freq='Y')),
                        [[p, str(p.year)] for p in pa], [pd.Period(str(1999 + origin), freq='Y'), str(2000 + origin + n)],
                        text_labels=[str(p.year) for p in pa]))
    # quarterly PeriodIndex: exact labels, plus year labels resolving to position ranges
    q0 = f'{2000 + origin}Q{(origin % 4) + 1}'
    pq = pd.period_range(start=q0, periods=n, freq='Q')
    groups = {}
    for i, p in enumerate(pq):
        first, last = groups.get(str(p.year), (i, i))
        groups[str(p.year)] = (min(first, i), max(last, i))
    out.append(SpanSpec('pd.PeriodIndex[Q]', (lambda n=n, q=q0: pd.period_range(start=q, periods=n, freq='Q')),
                        [[p, str(p)] for p in pq], [pd.Period('1990Q1', freq='Q'), '1990Q1', '2090'],
                        group_labels=groups, text_labels=[str(p) for p in pq]))
    # DatetimeIndex (daily)
    dd = pd.date_range(start=f'{2001 + origin}-02-27', periods=n, freq='D')
    out.append(SpanSpec('pd.DatetimeIndex[D]', (lambda n=n, o=origin: pd.date_range(start=f'{2001 + o}-02-27', periods=n, freq='D')),
                        [[d, d.strftime('%Y-%m-%d')] for d in dd], [pd.Timestamp('1999-01-01'), '1999-01-01'],
                        text_labels=[d.strftime('%Y-%m-%d') for d in dd]))
    # DatetimeIndex without a regular frequency (dates read from a file, trading days with gaps): freq is None
    gaps = [0, 1, 2, 5, 6, 7, 8, 9, 12, 13, 14, 15, 16, 19, 20, 21][:n]
    if len(gaps) == n:
        base = pd.Timestamp(f'{2003 + origin}-03-03')
        irr = [base + pd.Timedelta(days=g) for g in gaps]
        out.append(SpanSpec('pd.DatetimeIndex irregular', (lambda a=irr: pd.DatetimeIndex(a)), [[d, d.strftime('%Y-%m-%d')] for d in irr],
                            [pd.Timestamp('1999-01-01'), '1999-01-01', base + pd.Timedelta(days=3), (base + pd.Timedelta(days=4)).strftime('%Y-%m-%d')],
                            text_labels=[d.strftime('%Y-%m-%d') for d in irr]))
    # text labels that are prefixes of / differ by blanks, quotes or case from each other (lists and NumPy string arrays)
    tricky = ['2000 Q1', '2000 Q2', 'x', 'xy', 'xyz', "q'1", 'Q"2', 'X', 'x y', 'Xy'][:n]
    tricky_absent = ['2000 Q1 ', '2000 Q', ' x', 'x ', 'xy\t', 'XY', 'xY', '2000 Q10', 'xyz\n']
    if len(tricky) == n:
        out.append(SpanSpec('list[str] look-alikes', (lambda a=tricky: list(a)), [[x] for x in tricky], list(tricky_absent)))
        out.append(SpanSpec('ndarray[str] look-alikes', (lambda a=tricky: np.array(a)), [[x] for x in tricky], list(tricky_absent)))
        out.append(SpanSpec('pd.Index[str] look-alikes', (lambda a=tricky: pd.Index(a)), [[x] for x in tricky], list(tricky_absent)))
    # booleans (a two-period span), and a tuple whose labels are themselves tuples
    if n == 2:
        out.append(SpanSpec('list[bool]', (lambda: [False, True]), [[False], [True]], ['False', 2, None, (False,)]))
    tt = [(2000 + i // 4, i % 4 + 1) for i in range(n)]
    out.append(SpanSpec('tuple[tuple]', (lambda a=tt: tuple(a)), [[x] for x in tt], [(1999, 4), (2000,), 2000, '(2000, 1)']))
    # floats, and huge negative integers
    fl = [0.5, 1.5, -2.25, 3.5, 1e10, 7.0, 8.125, -0.75][:n]
    if len(fl) == n:
        out.append(SpanSpec('list[float]', (lambda a=fl: list(a)), [[x] for x in fl], [0.25, 7.000001, '0.5', 1e10 + 2048.0]))
        out.append(SpanSpec('ndarray[float]', (lambda a=fl: np.array(a)), [[x] for x in fl], [0.25, 7.000001, 1e10 + 2048.0]))
    big = -10 ** 12 + origin
    out.append(SpanSpec('range(-10**12,..)', (lambda b=big, n=n: range(b, b + n)), [[x] for x in range(big, big + n)], [big - 1, big + n, -big]))
    # NumPy-scalar / standard-library spellings of the same labels (what iterating over an array or `index.values` yields)
    import datetime
    for spec in out:
        if spec.kind == 'list[mixed hashables]':
            continue
        for alts in spec.labels:
            p0 = alts[0]
            extra = []
            if isinstance(p0, (int, np.integer)) and not isinstance(p0, (bool, np.bool_)):
                extra = [np.int64(p0)] + ([np.int32(p0)] if -2 ** 31 <= int(p0) < 2 ** 31 else [])
            elif isinstance(p0, str):
                extra = [np.str_(p0)]
            elif isinstance(p0, pd.Timestamp):
                extra = [p0.to_datetime64(), np.datetime64(p0.strftime('%Y-%m-%d')), np.datetime64(p0.strftime('%Y-%m-%d'), 'ns'), np.datetime64(p0.strftime('%Y-%m-%d'), 's'), p0.to_pydatetime()]
            for x in extra:
                if not any(type(x) is type(a) and repr(x) == repr(a) for a in alts):
                    alts.append(x)
    # the text of an integer label is not that label: '2003' is absent from a span of ints (and 2003 from a span of digit strings)
    for spec in out:
        prim = [a[0] for a in spec.labels]
        if prim and all(isinstance(x, (int, np.integer)) and not isinstance(x, (bool, np.bool_)) for x in prim):
            spec.absent = list(spec.absent) + [str(prim[0]), str(prim[-1]), f' {prim[0]}', f'{prim[0]}.0']
    # absent labels of every hashable kind, whatever the span holds (none of them equals a label of any spec above)
    for spec in out:
        spec.absent = list(spec.absent) + [x for x in EXOTIC_ABSENT if not any(type(x) is type(a) and x == a for a in spec.absent)]
    return out


EXOTIC_ABSENT = [(9, 9), frozenset({77}), 77.5, b'zz', 10 ** 30, 'nope_', ('zz',), 3 + 4j, -10 ** 6]


def pos(labels, label):
    """Reference position of `label`: first index whose primary label equals it."""
    for i, alts in enumerate(labels):
        for a in alts:
            try:
                if type(a) is type(label) and a == label:
                    return i
            except Exception:
                pass
    for i, alts in enumerate(labels):
        for a in alts:
            try:
                if a == label and not isinstance(a == label, np.ndarray):
                    return i
            except Exception:
                pass
    raise KeyError(label)


def slice_positions(n, first, last, step):
    """Positions addressed by an inclusive label slice first..last with positive step."""
    if step is None:
        step = 1
    return list(range(first, last + 1, step)) if first <= last else []
