"""C04 - solving a period touches only that period; reads never wrap round the span.

Monitor: full state snapshots before/after every solve_t / solve_period / solve call
(cell-level diff against the set of cells the script's equations assign for that period)
plus the recording-array access log of every read made while solving (each must address
position t+k inside the span for a lag/lead k written in the script - decided on the raw
index, so a wrapped negative index is seen even when the value looks plausible).
Infeasible explicit requests must raise; up-front rejections must change nothing."""
import math
import warnings

import numpy as np

from . import gen, rec, ref, scripted

PROPERTY = 'C04'
LEVEL = 'exploration'
RULE = ('random C01-grammar programs without verbatim code, lags/leads <= 3, over every span length LAGS+LEADS+1..+4, every '
        'position t in [-n-1, n] (both spellings, feasible and infeasible), every (start, end) pair for solve(), and the up-front '
        'rejections (min_iter > max_iter, out-of-span offset at both ends, pre-existing NaN/inf with and without offset); '
        'non-trivial = distinct (script, n, call) whose model has at least one lag or lead or two equations')
ASSUMPTIONS = ['"rejected" for an infeasible period means the call raises (any exception class) instead of returning',
               'the set of cells a period may change is {(lhs name, t + lhs offset)} for the script\'s equations plus status[t], iterations[t]']
ANCHORS = [('fsic/core/models.py', 'BaseModel.solve_t'), ('fsic/core/interfaces.py', 'SolverMixin.iter_periods'),
           ('fsic/core/interfaces.py', 'SolverMixin.solve'), ('fsic/parser.py', 'Term.code')]
REQUIRED_COUNTERS = {'solve_calls_monitored': 500, 'reads_checked': 2000, 'snapshots_compared': 500, 'infeasible_requests': 100, 'rejections_checked': 100}
LEVEL_TEXT = ('Recorded access traces + cell-level snapshot diffs around every solve call of generated models at every position of '
              'short spans, including all infeasible positions and rejected calls. Exploration bounded by span length and program size.')
LEVEL_NOTE = 'Trusted: NumPy indexing semantics of the recording ndarray subclass (fsicverif/rec.py) and the AST offsets of the generator.'
TECHNIQUE = 'recording-ndarray access log + before/after snapshot diff (runtime monitor)'


def nshards(tier):
    return 16


def snapshot(m):
    return {name: rec.plain(m, name).copy() for name in list(m.__dict__['index'])}


def program_facts(prog):
    offs = {}
    writes = []
    for e in prog.equations():
        writes.append((e.lhs.name, e.lhs.off))
        for tm in e.terms():
            offs.setdefault(tm.name, set()).add(tm.off)
    return offs, writes


def check_reads(ctx, log, n, offs, case, periods):
    """Every read in an evaluation phase must hit position p+k inside the span for a k written in the script."""
    cur = None
    for entry in log:
        if entry[0] == 'phase':
            cur = entry[2] if entry[1] == 'eval' else None
            continue
        kind, name, idx = entry
        if cur is None or name in ('status', 'iterations'):
            continue
        p = cur if cur >= 0 else cur + n
        ni = rec.norm_index(idx, n)
        if ni is None:
            continue
        ctx.count('reads_checked' if kind == 'r' else 'writes_checked')
        cell = ni[0]
        k = cell - p
        raw = int(idx)
        ok = name in offs and any(0 <= p + kk < n and raw in (p + kk, p + kk - n) and cell == p + kk for kk in offs[name])
        if not ok:
            # is it a wrapped access? some written offset k' with p+k' outside the span congruent to the cell
            wrapped = name in offs and any(not 0 <= p + kk < n and (p + kk) % n == cell for kk in offs[name])
            ctx.violation('wrapped-read' if wrapped else 'foreign-read', f'{"read" if kind == "r" else "write"} of {name}[{raw}] (cell {cell}) while solving position {p}: not t+k inside the span for any offset {sorted(offs.get(name, []))} written in the script (n={n})', case)
            return False
    return True


def instrument(Model):
    class Rec(Model):
        def _evaluate(self, t, **kw):
            self.__dict__['v_log'].mark('eval', t, kw.get('iteration'))
            try:
                super()._evaluate(t, **kw)
            finally:
                self.__dict__['v_log'].mark('end', t)
    return Rec


def one_model(ctx, prog, script, rng):
    import fsic
    try:
        typed = rng.random() < 0.6      # both class templates (with / without type hints) are the same model
        Model = fsic.build_model(fsic.parse_model(script), with_type_hints=typed)
        ctx.seen('templates', 'typed' if typed else 'untyped')
    except Exception:
        ctx.count('program_rejected')
        return
    ex = gen.classify(prog)
    offs, writes = program_facts(prog)
    Rec = instrument(Model)
    names = list(Model.NAMES)
    L, D = Model.LAGS, Model.LEADS
    opts = dict(max_iter=3, failures='ignore', errors='ignore')
    for extra in range(1, ctx.pick(3, 5)):
        n = L + D + extra
        data = ref.make_data(names, n, rng, 'positive')

        # spans whose labels include falsy ones (0, '') at the start, in the middle or at the end: an explicit
        # start/end naming such a period is still an explicit request
        span = rng.choice([range(100, 100 + n), range(0, n), range(-(n // 2), n - n // 2), range(-n + 1, 1),
                           [''] + [f'p{i}' for i in range(1, n)], [f'p{i}' for i in range(n - 1)] + [0.0],
                           list(range(2000, 2000 + n)), tuple(range(2000, 2000 + n))])
        # sometimes the model reaches its span through a reindex() from a window of the same length rolled by one or two periods
        # (after every label of the old window has been looked up): labels then stand at other positions than before
        rolled = None
        if isinstance(span, (list, tuple)) and rng.random() < 0.5:
            k_roll = rng.choice([1, 2])
            rolled = type(span)(list(span)[k_roll:] + [f'later{i}' for i in range(k_roll)]) if k_roll < n else None
            if rolled is not None:
                ctx.count('models_reindexed_from_a_rolled_window')
        ctx.seen('span_shapes', 'falsy-label' if any(not x for x in span) else 'plain')

        # sometimes an endogenous variable is initialised from another variable's series by a whole-series assignment
        # (`m.C = m.X`): they must stay two series - solving still changes only the cells the equations assign
        seed_from = None
        endo_names = [x for x in Model.ENDOGENOUS]
        others = [x for x in names if x not in endo_names]
        if endo_names and others and rng.random() < 0.3:
            seed_from = (rng.choice(endo_names), rng.choice(others), rng.choice(['attr', 'item', 'replace_values']))
            ctx.count('models_seeded_from_another_series')

        # sometimes the convergence-check list names a variable that no equation assigns (an exogenous variable or parameter
        # watched for stability): being checked does not make it something a solve may change - not even through `offset`
        extra_check = [rng.choice(others)] if others and rng.random() < 0.3 else []
        extra_mode = rng.choice(['rebind', 'append'])
        if extra_check:
            ctx.count('models_checking_a_non_endogenous_variable')

        def fresh():
            if rolled is not None:
                m0 = Rec(rolled)
                for lab in rolled:
                    m0[names[0], lab]
                    m0[names[0], lab:lab]
                m = m0.reindex(span)
            else:
                m = Rec(span)
            for nm in names:
                m.__dict__['_' + nm][:] = data[nm]
            if extra_check:
                if extra_mode == 'rebind':
                    m.check = list(m.check) + extra_check
                else:
                    m.check.append(extra_check[0])        # in place: the check list is the instance's own, and only the check list
            if seed_from is not None:
                e_, x_, how = seed_from
                if how == 'attr':
                    setattr(m, e_, getattr(m, x_))
                elif how == 'item':
                    m[e_] = m[x_]
                else:
                    m.replace_values(**{e_: m[x_]})
            m.__dict__['v_log'] = rec.install(m)
            return m

        # ---- every position, both spellings, plus out-of-range ----------------------------
        for t in range(-n - 1, n + 1):
            tn = t if t >= 0 else t + n
            feasible = 0 <= tn < n and L <= tn < n - D and -n <= t < n
            entry = 'solve_period' if (t >= 0 and t < n and rng.random() < 0.3) else 'solve_t'
            case = {'script': script, 'program': gen.to_json(prog), 'n': n, 't': t, 'entry': entry, 'data': {k: v.tolist() for k, v in data.items()}}
            nontrivial = L + D > 0 or len(writes) > 1
            ctx.evaluation((script, n, t, entry), nontrivial=nontrivial, sample={'script': script, 'n': n, 't': t, 'entry': entry})
            m = fresh()
            before = snapshot(m)
            res = {}
            call_opts = dict(opts)
            off = rng.choice([0, 0, 0, -1, 1, 2])
            if off and 0 <= tn + off < n and (feasible or 0 <= tn < n):
                # seeds the endogenous variables of period t from t+offset: still only period t may change - and nothing at all when the
                # period itself is refused for want of lags / leads
                call_opts['offset'] = off
            with ref.quiet():
                try:
                    # the position may be an integer of another integer type (np.flatnonzero, np.argmax, ... hand back NumPy integers)
                    t_arg = rng.choice([t, t, np.int64(t), np.int32(t), np.intp(t)])
                    case['t_type'] = type(t_arg).__name__
                    res['ret'] = m.solve_period(m.span[tn], **call_opts) if entry == 'solve_period' else m.solve_t(t_arg, **call_opts)
                except Exception as e:
                    res['exc'] = e
            m.__dict__['v_log'].enabled = False
            after = snapshot(m)
            changed = scripted.changed_cells(before, after)
            ctx.count('solve_calls_monitored')
            ctx.count('snapshots_compared')
            if not feasible:
                ctx.count('infeasible_requests')
                if 'exc' not in res:
                    served = [e for e in m.__dict__['v_log'] if e[0] == 'r' and isinstance(e[2], (int, np.integer)) and e[2] < 0]
                    ctx.violation('infeasible-period-served', f'solve_t({t}) on a span of {n} with LAGS={L}, LEADS={D} returned {res["ret"]!r} instead of being rejected (negative raw indexes read: {[(e[1], int(e[2])) for e in served][:4]})', case)
                elif changed:
                    ctx.violation('rejected-call-mutates', f'{entry}({t}, {call_opts.get("offset", 0) and "offset=" + str(call_opts["offset"])}) was refused ({type(res["exc"]).__name__}: no room for LAGS={L} / LEADS={D}) yet changed {sorted(changed)[:6]}', case)
                continue
            if isinstance(res.get('exc'), IndexError):
                # a period inside the default range, with any offset that stays inside the span, is never "out of range"
                ctx.violation('feasible-period-rejected', f'{entry}({t}, {call_opts}) on a span of {n} with LAGS={L}, LEADS={D} raised IndexError: {res["exc"]}', case)
                continue
            allowed = {(nm, tn + k) for nm, k in writes} | {('status', tn), ('iterations', tn)}
            if 'offset' in call_opts:
                allowed |= {(nm, tn) for nm in Model.ENDOGENOUS}
            if changed - allowed:
                ctx.violation('foreign-cells-changed', f'solve_t({t}, {call_opts.get("offset", 0)}) changed {sorted(changed - allowed)}; the script assigns only {sorted(allowed)}', case)
                continue
            if not check_reads(ctx, m.__dict__['v_log'], n, offs, case, [tn]):
                continue
            st = after['status']
            if 'exc' not in res and st[tn] not in ('.', 'F', 'S'):
                ctx.violation('status-not-recorded', f'solve_t({t}) returned {res.get("ret")!r} with status {st[tn]!r}', case)
        # ---- solve() over every (start, end) pair ----------------------------------------
        pairs = [(None, None)] + [(a, b) for a in range(n) for b in range(n)]
        if len(pairs) > 12:
            pairs = [pairs[0]] + rng.sample(pairs[1:], 11)
        for a, b in pairs:
            m = fresh()
            prior = a is not None and rng.random() < 0.5
            if prior:
                # an earlier run left solution records on every period: a run that stops early leaves the rest of them alone
                rec.plain(m, 'status')[:] = rng.choice(['.', 'F', 'S'])
                rec.plain(m, 'iterations')[:] = 7
                ctx.count('solve_calls_on_previously_solved_models')
            before = snapshot(m)
            kw = {}
            if a is not None:
                kw = {'start': m.span[a], 'end': m.span[b]}
            lo = L if a is None else a
            hi = n - 1 - D if a is None else b
            periods = list(range(lo, hi + 1))
            case = {'script': script, 'program': gen.to_json(prog), 'n': n, 'solve': [a, b], 'data': {k: v.tolist() for k, v in data.items()}}
            ctx.evaluation((script, n, 'solve', a, b), nontrivial=L + D > 0 or len(writes) > 1, sample={'script': script, 'n': n, 'solve': [a, b]})
            res = {}
            with ref.quiet():
                try:
                    res['ret'] = m.solve(**kw, **opts)
                except Exception as e:
                    res['exc'] = e
            m.__dict__['v_log'].enabled = False
            after = snapshot(m)
            changed = scripted.changed_cells(before, after)
            ctx.count('solve_calls_monitored')
            ctx.count('snapshots_compared')
            infeasible = [p for p in periods if not L <= p < n - D]
            if infeasible and 'exc' not in res:
                ctx.violation('infeasible-period-served', f'solve(start={a}, end={b}) on a span of {n} with LAGS={L}, LEADS={D} returned normally although periods {infeasible} cannot accommodate the lags/leads', case)
                continue
            if infeasible:
                ctx.count('infeasible_requests')
            if a is None and isinstance(res.get('exc'), (IndexError, KeyError)):
                ctx.violation('default-range-infeasible', f'solve() over the default range raised {res["exc"]!r} (n={n}, LAGS={L}, LEADS={D})', case)
                continue
            if a is None and 'exc' not in res:
                visited = [p for p in range(n) if after['status'][p] != '-']
                if visited != periods or list(res['ret'][1]) != periods:
                    ctx.violation('default-range', f'solve() visited {visited} / returned {res["ret"][1]}; periods whose reads stay inside the span are {periods}', case)
                    continue
            allowed = set()
            reached = periods
            if 'exc' in res:
                # a run that raised has changed only the periods it got as far as evaluating
                reached = sorted({e[2] if e[2] >= 0 else e[2] + n for e in m.__dict__['v_log'] if e[0] == 'phase' and e[1] == 'eval'})
            for p in reached:
                allowed |= {(nm, p + k) for nm, k in writes} | {('status', p), ('iterations', p)}
            if changed - allowed:
                ctx.violation('foreign-cells-changed', f'solve(start={a}, end={b}) {"raised " + type(res["exc"]).__name__ + " after evaluating periods " + str(reached) + " and " if "exc" in res else ""}changed {sorted(changed - allowed)}', case)
                continue
            if not infeasible:
                check_reads(ctx, m.__dict__['v_log'], n, offs, case, periods)
        # ---- up-front rejections change nothing ----------------------------------------
        feas = list(range(L, n - D))
        if feas:
            t = rng.choice(feas)
            inspan = [k for k in (-1, 1, 2, -2) if 0 <= t + k < n]
            rejections = [('min_iter>max_iter', dict(min_iter=3, max_iter=2), ValueError)] + \
                         [('min_iter>max_iter with in-span offset', dict(min_iter=1, max_iter=0, offset=k), ValueError) for k in inspan[:2]] + [
                          
                          ('offset-before-span', dict(offset=-(t + 1)), IndexError),
                          ('offset-beyond-span', dict(offset=n - t), IndexError)]
            for label, kw, exc in rejections:
                for tt in (t, t - n):
                    _rejection(ctx, fresh(), tt, kw, exc, label, script, n)
            endo = list(Model.ENDOGENOUS)
            if endo:
                # pre-existing non-finite check value, errors='raise'
                for bad in (math.nan, math.inf):
                    m = fresh()
                    rec.plain(m, endo[0])[t] = bad
                    _rejection(ctx, m, t, dict(errors='raise'), None, 'pre-existing non-finite', script, n)
                    for cfe in (False, True):
                        # whether numerical errors are caught at the first statement or after the pass has nothing to do with it
                        m = fresh()
                        rec.plain(m, endo[0])[t] = bad
                        _rejection(ctx, m, t, dict(errors='raise', catch_first_error=cfe), None, f'pre-existing non-finite, catch_first_error={cfe}', script, n)
                    if n > 1:
                        src = t + 1 if t + 1 < n else t - 1
                        m = fresh()
                        rec.plain(m, endo[0])[src] = bad
                        _rejection(ctx, m, t, dict(errors='raise', offset=src - t), None, 'pre-existing non-finite via offset', script, n)
                        if extra_check:
                            # a watched variable that no equation assigns is read at t itself (an offset copies endogenous values only)
                            m = fresh()
                            rec.plain(m, extra_check[0])[t] = bad
                            _rejection(ctx, m, t, dict(errors='raise', offset=src - t), None, 'pre-existing non-finite in a non-endogenous check variable, with offset', script, n)
                            m = fresh()
                            rec.plain(m, extra_check[0])[t] = bad
                            _rejection(ctx, m, t, dict(errors='raise'), None, 'pre-existing non-finite in a non-endogenous check variable', script, n)


def _rejection(ctx, m, t, kw, exc, label, script, n):
    if ctx.counters.get("rejections_checked", 0) % 2:
        # the period (and its neighbours) already carry a solution record from an earlier call: "changes nothing" includes it
        rec.plain(m, 'status')[:] = ['.', 'F', 'S', 'E'][ctx.counters.get("rejections_checked", 0) // 2 % 4]
        rec.plain(m, 'iterations')[:] = 7
    before = snapshot(m)
    case = {'script': script, 'n': n, 't': t, 'rejection': label, 'kwargs': kw}
    ctx.evaluation((script, n, t, label), nontrivial=True)
    res = {}
    by_label = 0 <= t < n and ctx.counters.get("rejections_checked", 0) % 3 == 0
    if by_label:
        # the same request by label, with an unrelated option spelled out next to it
        kw = dict(kw, failures=['ignore', 'raise'][ctx.counters.get("rejections_checked", 0) // 3 % 2])
        case['entry'] = 'solve_period'
        case['kwargs'] = kw
    with ref.quiet():
        try:
            res['ret'] = m.solve_period(list(m.span)[t], **kw) if by_label else m.solve_t(t, **kw)
        except Exception as e:
            res['exc'] = e
    m.__dict__['v_log'].enabled = False
    ctx.count('rejections_checked')
    changed = scripted.changed_cells(before, snapshot(m))
    if 'exc' not in res:
        ctx.violation('rejection-missing', f'{label}: solve_t({t}, **{kw}) returned {res["ret"]!r}', case)
    elif exc is not None and not isinstance(res['exc'], exc):
        ctx.violation('rejection-class', f'{label}: expected {exc.__name__}, got {type(res["exc"]).__name__}: {res["exc"]}', case)
    elif changed:
        ctx.violation('rejected-call-mutates', f'{label}: rejected call changed {sorted(changed)}', case)
    elif any(e[0] == 'phase' for e in m.__dict__['v_log']):
        ctx.violation('rejected-call-evaluates', f'{label}: rejected call ran an evaluation pass', case)


def run_shard(ctx):
    rng = ctx.rng('c04')
    count = ctx.pick(40, 600)
    rp = gen.RandomPrograms(rng, max_depth=2, max_eqs=4, max_names=6, offsets=(-3, -2, -1, -1, 0, 0, 0, 1, 2, 3),
                            lhs_offsets=(0, 0, 0, 0, 0, -1, 1), allow=('num', 'neg', 'bin', 'paren', 'call1', 'call2', 'ifexp', 'cmp'),
                            literals=('1', '2', '0.5', '3.25'))
    for i in range(count):
        prog = rp.program()
        if gen.classify(prog).reject:
            continue
        script = gen.render_program(prog)
        one_model(ctx, prog, script, rng)
    # deterministic corner models
    V, N, B, E, P = gen.Var, gen.Num, gen.Bin, gen.Eq, gen.Program
    corner = [P([E(V('Y'), B('+', V('Y', off=-1), V('X')))]), P([E(V('Y'), V('X', off=1, plus=True))]),
              P([E(V('Y'), B('+', V('X', off=-2), V('X', off=2)))]), P([E(V('Y'), B('*', V('a', 'param', -1), V('e', 'error', 1)))]),
              P([E(V('Y'), V('X')), E(V('Z'), V('Y', off=-3))])]
    for i, prog in enumerate(corner):
        if ctx.mine(i):
            one_model(ctx, prog, gen.render_program(prog), rng)


def replay(ctx, case):
    if 'program' not in case:
        ctx.inconclusive_because('rejection cases are replayed by re-running the shard with the same seed')
        return
    prog = gen.from_json(case['program'])
    ctx.evaluation(case['script'], nontrivial=True)
    one_model(ctx, prog, case['script'], ctx.rng('c04'))
