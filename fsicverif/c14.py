"""C14 - the layout of the script does not matter; the normal form is a fixed point.

Monitor: metamorphic twin runs through the real parser.  Each generated program is
rendered canonically and under every layout transformation of a catalogue (and random
compositions); the parsed symbols' (name, type, lags, leads) and the ast of the generated
code are compared.  Whole-script parsing is compared with merging per-statement parses,
and every normalised equation is fed back to the parser."""
import ast
import copy
import re

from . import gen
from .c01 import parser_errors

PROPERTY = 'C14'
LEVEL = 'exploration'
RULE = ('random C01-grammar programs x layout catalogue {random whitespace at token boundaries, tight (no optional whitespace, none between a keyword and an adjacent bracket), comparison after `if` without its redundant parentheses, spaces '
        'inside {..} <..> [..], whitespace between a term and its index bracket (both sides of =), explicit [0], comment and blank-line '
        'insertion, parenthesise-and-break at every operator (with trailing comments), statement permutation} and random compositions; '
        'statement-by-statement merge; normal-form fixed point. non-trivial = distinct (script variant) whose text differs from the canonical rendering')
ASSUMPTIONS = ['"meaning of the generated code" is compared as Python AST equality (layout never changes the AST of an expression)',
               'splitting a sign from its digits ([- 1]) is not a layout transformation of the catalogue',
               'the fixed-point clause is applied to equations without verbatim fragments or named-period indexes']
ANCHORS = [('fsic/parser.py', 'split_equations_iter'), ('fsic/parser.py', 'term_re'), ('fsic/parser.py', 'equation_re'),
           ('fsic/parser.py', 'parse_equation'), ('fsic/parser.py', 'parse_model')]
REQUIRED_COUNTERS = {'variants_compared': 1500, 'merges_compared': 100, 'fixed_points_checked': 300}
LEVEL_TEXT = 'Metamorphic monitor through the real parser over a catalogue of layout transformations, per-statement merge and normal-form re-parse.'
LEVEL_NOTE = 'Trusted: the AST renderer (layouts are produced from the AST, never by editing text).'
TECHNIQUE = 'metamorphic twin runs (layout variants) through the real parser'


def nshards(tier):
    return 16


def signature(symbols):
    out = []
    for s in symbols:
        if s.type.name == 'VERBATIM':
            out.append(('<verbatim>', 'VERBATIM', None, None, s.code))
            continue
        code = None
        if s.code is not None:
            try:
                code = ast.dump(ast.parse(s.code))
            except SyntaxError:
                code = ('unparseable', s.code)
        out.append((s.name, s.type.name, s.lags, s.leads, code))
    return out


def explicit_zero(prog):
    p = copy.deepcopy(prog)
    for st in p.stmts:
        eqs = [st] if isinstance(st, gen.Eq) else st.eqs
        for e in eqs:
            for tm in e.terms():
                if isinstance(tm, gen.Var):
                    tm.explicit = True
    return p


def paren_break(prog):
    p = copy.deepcopy(prog)
    for st in p.stmts:
        if isinstance(st, gen.Eq):
            st.rhs = gen.Paren(st.rhs)
    return p


def permuted(prog, rng):
    p = copy.deepcopy(prog)
    rng.shuffle(p.stmts)
    return p


def variants(prog, rng):
    L = gen.Layout
    yield 'whitespace-noise', gen.render_program(prog, L(rng, noise=0.7))
    yield 'tight', gen.render_program(prog, L(rng, noise=0.0, tight=True))
    yield 'inner-spaces', gen.render_program(prog, L(rng, noise=0.0, inner_p=1.0))
    yield 'pre-index-space', gen.render_program(prog, L(rng, noise=0.0, pre_p=1.0))
    yield 'explicit-zero', gen.render_program(explicit_zero(prog))
    if any(isinstance(st, gen.Block) and getattr(st, 'guard', 0) for st in prog.stmts):
        # comments inside a fenced block (Python's own, after indented lines) are comments too; the canonical rendering has none
        yield 'block-with-comments', gen.render_program(prog)
    canonical = gen.render_program(prog)
    yield 'crlf-line-endings', canonical.replace('\n', '\r\n') + '\r\n'
    if not any(isinstance(st, gen.Block) for st in prog.stmts):
        # (statements only: a code fence with blanks after it is markup, not "horizontal whitespace inside a statement")
        yield 'trailing-whitespace', '\n'.join(line + rng.choice(['  ', '\t', ' \t ']) for line in canonical.split('\n'))
    if not any(isinstance(st, gen.Block) for st in prog.stmts):     # (the inside of a fenced block is verbatim code: left alone)
        yield 'form-feeds-and-final-comment', canonical.replace('\n', '\n\x0c\n') + '\n# the end'
        # every line boundary Python's str.splitlines() knows ends a statement: old-Macintosh \r, a page break glued to the
        # next statement, NEL, the Unicode line / paragraph separators, vertical tab, file / group / record separators
        sep = rng.choice(['\r', '\n\x0c', '\x85', '\u2028', '\u2029', '\x0b', '\x1c', '\x1d', '\x1e', '\x0c'])
        yield 'other-line-boundaries', canonical.replace('\n', sep)
    else:
        yield 'final-comment-no-newline', canonical + '\n# the end'
    yield 'bare-condition', gen.render_program(prog, L(rng, noise=0.0, bare_p=1.0))
    yield 'comments-blank-lines', gen.render_program(prog, L(rng, noise=0.0, comments=0.9))
    yield 'paren-break', gen.render_program(paren_break(prog), L(rng, noise=0.0, breaks=1.0, comments=0.5))
    yield 'paren-break-noise', gen.render_program(paren_break(prog), L(rng, noise=0.4, breaks=0.6, inner_p=0.5, pre_p=0.5))
    for k in range(2):
        q = explicit_zero(prog) if rng.random() < 0.5 else prog
        q = paren_break(q) if rng.random() < 0.5 else q
        yield 'composition', gen.render_program(q, L(rng, noise=rng.random(), breaks=rng.random() * 0.8, comments=rng.random() * 0.8, tight=rng.random() < 0.3,
                                                      inner_p=rng.random(), pre_p=rng.random(), bare_p=rng.choice([0.0, 0.5, 1.0])))


def to_script_indexes(equation):
    """[t] -> [0], [t-k] -> [-k], [t+k] -> [+k]"""
    eq = equation.replace('[t]', '[0]')
    return re.sub(r'\[t([+-][0-9]+)\]', r'[\1]', eq)


def one_program(ctx, prog, rng):
    import fsic
    gen.BLOCK_COMMENTS['on'] = False
    try:
        base_script = gen.render_program(prog)       # canonical: no comments anywhere, fenced blocks included
    finally:
        gen.BLOCK_COMMENTS['on'] = True
    ex = gen.classify(prog)
    case = {'program': gen.to_json(prog), 'script': base_script}
    try:
        base = fsic.parse_model(base_script)
    except parser_errors():
        ctx.count('program_rejected')
        return
    if ex.reject:
        return
    bsig = signature(base)
    # ---- layout variants -------------------------------------------------------------------------
    for tag, script in variants(prog, rng):
        ctx.evaluation(script, nontrivial=script != base_script, sample={'variant': tag, 'script': script})
        ctx.seen('variant_tags', tag)
        c2 = dict(case, variant=tag, variant_script=script)
        try:
            got = fsic.parse_model(script)
        except parser_errors() as e:
            ctx.violation('layout-variant-rejected', f'{tag}: rejected with {type(e).__name__}: {str(e)[:200]} -- variant {script!r} of {base_script!r}', c2)
            return
        except Exception as e:
            ctx.violation('layout-variant-foreign-exception', f'{tag}: {type(e).__name__}: {str(e)[:200]}', c2)
            return
        ctx.count('variants_compared')
        gsig = signature(got)
        if gsig != bsig:
            diff = [(a, b) for a, b in zip(bsig, gsig) if a != b][:2]
            ctx.violation('layout-changes-symbols', f'{tag}: symbols differ {diff} (lengths {len(bsig)}/{len(gsig)}) -- variant {script!r} of {base_script!r}', c2)
            return
    # ---- statement permutation only reorders symbols ----------------------------------------------
    if len(prog.stmts) > 1 and not any(isinstance(s, gen.Block) for s in prog.stmts):
        q = permuted(prog, rng)
        script = gen.render_program(q)
        ctx.evaluation(script, nontrivial=script != base_script, sample={'variant': 'permutation', 'script': script})
        try:
            got = fsic.parse_model(script)
            ctx.count('variants_compared')
            if sorted(map(repr, signature(got))) != sorted(map(repr, bsig)):
                ctx.violation('permutation-changes-symbols', f'reordering statements changed more than the order: {script!r} vs {base_script!r}', dict(case, variant_script=script))
                return
        except parser_errors() as e:
            ctx.violation('layout-variant-rejected', f'permutation rejected with {type(e).__name__}: {str(e)[:200]}', dict(case, variant_script=script))
            return
    # ---- parsing a script == merging the parses of its statements ---------------------------------
    merged = {}
    verb = []
    try:
        for st in prog.stmts:
            text = gen.render_block(st, 'script') if isinstance(st, gen.Block) else gen.render_eq(st, 'script')
            for s in fsic.parse_model(text):
                if s.name is None:
                    verb.append(s)
                else:
                    merged[s.name] = merged.get(s.name, s).combine(s)
        ctx.count('merges_compared')
        if list(merged.values()) + verb != base:
            ctx.violation('script-not-merge-of-statements', f'parse_model(script) differs from merging per-statement parses for {base_script!r}', case)
            return
    except parser_errors() as e:
        ctx.violation('script-not-merge-of-statements', f'a single statement of an accepted script was rejected: {type(e).__name__}: {str(e)[:200]}', case)
        return
    # ... and through the parser's own per-statement door, parse_equation() (fenced blocks are not equations: parse_model for those)
    merged, verb = {}, []
    try:
        from fsic.parser import parse_equation
        for st in prog.stmts:
            if isinstance(st, gen.Block):
                one = fsic.parse_model(gen.render_block(st, 'script'))
            else:
                one = parse_equation(gen.render_eq(st, 'script'))
            for s in one:
                if s.name is None:
                    verb.append(s)
                elif s.name in merged:
                    merged[s.name] = merged[s.name].combine(s)
                else:
                    merged[s.name] = s
        ctx.count('merges_compared')
        ctx.count('parse_equation_merges_compared')
        if list(merged.values()) + verb != base:
            diff = [(a, b) for a, b in zip(list(merged.values()) + verb, base) if a != b][:1]
            ctx.violation('script-not-merge-of-statements', f'parse_model(script) differs from merging parse_equation(statement) over its statements for {base_script!r}: {str(diff)[:300]}', case)
            return
    except parser_errors() as e:
        ctx.violation('script-not-merge-of-statements', f'parse_equation() rejected a single statement of an accepted script: {type(e).__name__}: {str(e)[:200]}', case)
        return
    # ---- the normal form is a fixed point -----------------------------------------------------------
    named_lhs = {e.lhs.name for e in prog.equations() if e.has(gen.Named) or e.has(gen.Verb)}
    # ... whatever layout the normal form was produced from: the canonical rendering and the broken-inside-parentheses ones
    pool = list(base)
    for lay_kw in (dict(noise=0.0, breaks=1.0, comments=0.5), dict(noise=0.6, breaks=0.7, inner_p=0.5)):
        try:
            pool += fsic.parse_model(gen.render_program(paren_break(prog), gen.Layout(rng, **lay_kw)))
        except parser_errors():
            pass
    for s in pool:
        if s.type.name != 'ENDOGENOUS' or s.equation is None or s.name in named_lhs or '`' in s.equation:
            continue
        text = to_script_indexes(s.equation)
        ctx.evaluation(('fixed-point', text), nontrivial=True)
        try:
            again = fsic.parse_model(text)
        except parser_errors() as e:
            if any(n in text for n in ex.functions if n in [x.name for x in base if x.type.name != 'FUNCTION']):
                continue
            ctx.violation('normal-form-rejected', f'normalised equation {text!r} rejected with {type(e).__name__}: {str(e)[:200]}', dict(case, equation=text))
            return
        ctx.count('fixed_points_checked')
        a = [x for x in again if x.name == s.name]
        if not a or a[0].equation != s.equation or a[0].code != s.code:
            ctx.violation('normal-form-not-fixed-point', f're-parsing {text!r} gives equation {a[0].equation if a else None!r} / code {a[0].code if a else None!r}, expected {s.equation!r} / {s.code!r}', dict(case, equation=text))
            return


def run_shard(ctx):
    rng = ctx.rng('c14')
    rp = gen.RandomPrograms(rng, max_depth=4, max_eqs=5, max_names=8, big_offsets=True, lhs_offsets=(0, 0, 0, 0, -1, 1))
    for i in range(ctx.pick(80, 2500)):
        # every fourth program is dense in period-label indexes (X['2000'], X[`2001`]): several of them per statement, with brackets
        # opening and closing between them, so that a statement broken inside parentheses has labels on either side of the break
        rp.named_rate = 0.35 if i % 4 == 3 else 0.04
        prog = rp.program()
        if i % 4 == 3:
            ctx.count('label_dense_programs')
        one_program(ctx, prog, rng)
    # small exhaustive shapes under the catalogue
    k = 0
    for tag, rhs in gen.small_shapes(1):
        k += 1
        if k % ctx.pick(40, 4) != ctx.seed % ctx.pick(40, 4) or not ctx.mine(k // ctx.pick(40, 4)):
            continue
        one_program(ctx, gen.Program([gen.Eq(gen.Var('Y', 'var', 0), rhs)]), rng)


def replay(ctx, case):
    ctx.evaluation(case['script'], nontrivial=True)
    one_program(ctx, gen.from_json(case['program']), ctx.rng('c14'))
