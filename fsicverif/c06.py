"""C06 - numerical-error and failure policies follow the documented state machine.

Monitor: fault injection through scripted models.  Each fault kind (NaN, +inf, -inf,
warning-raising NumPy operation, Python exception) is placed at every (variable, pass)
position, healed or persistent, over finite backgrounds, and additionally every outcome
sequence up to a bound is enumerated; hooks can fault too.  Observations (exception
class and __cause__, status, iterations, stored value of the faulting variable, pass and
hook counts, every other cell) are compared with the reference state machine.  Parser
-built models that fault naturally (1/X, log(X), exp overflow, inf - inf) are monitored
through recording arrays to decide whether the faulting statement stored its result."""
import itertools
import math
import warnings

import numpy as np

from . import rec, scripted
from .c02 import run_case

PROPERTY = 'C06'
LEVEL = 'fault_enumeration'
RULE = ('fault placements: kind in {nan, +inf, -inf, warn, exc} x variable in {A, B} x pass 1..4 x {healed, persistent} over '
        'finite backgrounds {still, moving}, plus every outcome sequence of length <= L (quick 2, thorough 3) over 8x3 outcome '
        'pairs, plus hook faults; crossed with errors in {raise, skip, ignore, replace, bogus} x failures x catch_first_error x '
        'min_iter/max_iter 0..4 x pre-existing non-finite start values; natural faults from parser-built equations. '
        'non-trivial = distinct case containing at least one fault or non-finite start value')
ASSUMPTIONS = ['under errors="replace" the solver judges the pass after a non-finite one against the zero-replaced vector (the documented meaning of "replace")',
               'under a non-raise policy the status left behind by an exception inside a pass or hook is unspecified and not compared',
               'for an invalid errors= value only the universal clauses (status alphabet, solved flag, no foreign cells) are asserted']
ANCHORS = [('fsic/core/models.py', 'BaseModel.solve_t'), ('fsic/core/interfaces.py', 'SolverMixin.solve')]
REQUIRED_COUNTERS = {'runs_compared': 3000, 'passes_observed': 3000, 'faults_injected': 2000, 'natural_fault_runs': 40}
LEVEL_TEXT = ('Fault enumeration: every fault kind at every (variable, pass) position and every short fault sequence, under every '
              'policy combination, compared with the reference state machine on everything observable (exception chain, status, '
              'iteration count, stored value, other cells).')
LEVEL_NOTE = 'Trusted: reference machine in fsicverif/scripted.py and its reading of "replace" (see assumptions). Bounded by sequence length and pass <= 4.'
TECHNIQUE = 'fault injection through scripted models + reference state machine (runtime monitor)'

A_OUT = ['same', 'big', 'huge', 'nhuge', 'uwarn', 'nan', 'pinf', 'ninf', 'warn', 'exc', 'excse', 'zero']
B_OUT = ['same', 'huge', 'nan', 'zero']
FAULTS = ['nan', 'pinf', 'ninf', 'warn', 'exc', 'excse']
ERRORS = ['raise', 'skip', 'ignore', 'replace', 'bogus']


def nshards(tier):
    return 16


def policies(rng, k, full=False):
    if full:
        return [dict(errors=e, failures=f, cfe=c) for e in ERRORS for f in ('raise', 'ignore') for c in (True, False)]
    return [dict(errors=rng.choice(ERRORS[:4] * 3 + ERRORS[4:]), failures=rng.choice(['raise', 'ignore']), cfe=rng.choice([True, False])) for _ in range(k)]


def run_shard(ctx):
    Model = scripted.make_model_class()
    rng = ctx.rng('c06')
    idx = 0
    # 1. structured placements, full policy cross
    for fault in FAULTS:
        for var in ('A', 'B'):
            for at in range(1, 5):
                for heal in (True, False):
                    for bg in ('same', 'big'):
                        for max_iter in (at - 1, at, at + 1, at + 3):
                            if max_iter < 0:
                                continue
                            for min_iter in (0, at + 1, max_iter):
                                if min_iter > max_iter + 1:
                                    continue
                                idx += 1
                                if not ctx.mine(idx):
                                    continue
                                script = []
                                for k in range(1, at + 4):
                                    o = [bg, 'same']
                                    j = 0 if var == 'A' else 1
                                    if k == at:
                                        o[j] = fault
                                    elif k == at + 1 and heal:
                                        o[j] = 'zero'
                                    elif k > at:
                                        o[0] = 'same'
                                    script.append(o)
                                for pol in policies(rng, 0, full=True):
                                    case = dict(script=script, min_iter=min_iter, max_iter=max_iter, tol=0.5, start={'A': 0.0, 'B': 0.0}, n=4,
                                                t=rng.choice([1, -2]), check=None, entry='solve_t', **pol)
                                    ctx.evaluation(case, nontrivial=True, sample=case)
                                    ctx.count('faults_injected')
                                    run_case(ctx, Model, case)
    # 2. exhaustive short sequences, sampled policies
    L = ctx.pick(2, 3)
    pairs = [(a, b) for a in A_OUT for b in B_OUT]
    k_pol = ctx.pick(4, 6)
    for length in range(1, L + 1):
        for script in itertools.product(pairs, repeat=length):
            for max_iter in range(0, ctx.pick(3, 4) + 1):
                idx += 1
                if not ctx.mine(idx):
                    continue
                for pol in policies(rng, k_pol):
                    min_iter = rng.choice([0, 0, 1, 2, max_iter, max_iter + 1])
                    case = dict(script=[list(p) for p in script], min_iter=min_iter, max_iter=max_iter, tol=rng.choice([0.5, 0.5, 1e-10]),
                                start={'A': 0.0, 'B': 0.0}, n=4, t=rng.choice([1, 2, -1]), check=rng.choice([None, None, ['A'], ['B']]),
                                entry=rng.choice(['solve_t', 'solve_period']), **pol)
                    if rng.random() < 0.15:
                        case['start'] = {'A': rng.choice([math.nan, math.inf, -math.inf]), 'B': 0.0}
                    if rng.random() < 0.08:
                        case['before_fault'] = rng.choice(['exc', 'warn', 'excse', 'uwarn'])
                    elif rng.random() < 0.08:
                        case['after_fault'] = rng.choice(['exc', 'warn', 'excse', 'uwarn'])
                    nt = any(o not in ('same', 'big') for p in script for o in p) or any(not math.isfinite(v) for v in case['start'].values()) or 'before_fault' in case or 'after_fault' in case
                    ctx.evaluation(case, nontrivial=nt, sample=case)
                    ctx.count('faults_injected', sum(o in FAULTS for p in script for o in p))
                    run_case(ctx, Model, case)
    # 3. hook faults, full policy cross
    for hook in ('before_fault', 'after_fault'):
        for kind in ('exc', 'warn', 'excse', 'uwarn'):
            for pol in policies(rng, 0, full=True):
                for script in ([], [['big', 'same']], [['big', 'same'], ['big', 'big']]):
                    idx += 1
                    if not ctx.mine(idx):
                        continue
                    case = dict(script=script, min_iter=0, max_iter=4, tol=0.5, start={'A': 0.0, 'B': 0.0}, n=4, t=1, check=None, entry='solve_t', **pol)
                    case[hook] = kind
                    ctx.evaluation(case, nontrivial=True, sample=case)
                    ctx.count('faults_injected')
                    run_case(ctx, Model, case)
    natural_faults(ctx)
    multi_period(ctx, Model)


NATURAL = [
    # (script, data, description of the faulting statement index)
    ('s = 1 / X\nY = s + 1', {'X': 0.0}, 0),
    ('s = log(X)\nY = s + 1', {'X': 0.0}, 0),
    ('s = exp(X)\nY = s + 1', {'X': 1000.0}, 0),
    ('s = X - X\nY = s', {'X': math.inf}, 0),
    ('a = X + 1\ns = a / Z\nY = s', {'X': 1.0, 'Z': 0.0}, 1),
    ('s = log(X)\nY = 1', {'X': -1.0}, 0),
    ('s = X ** 0.5\nY = s', {'X': -4.0}, 0),
]


def natural_faults(ctx):
    """Parser-built equations that fault by themselves; the access log decides whether the
    faulting statement stored its result (it must not under raise + catch_first_error)."""
    import fsic
    from fsic.exceptions import SolutionError
    rng = ctx.rng('c06-natural')
    for ni, (script, data, fault_stmt) in enumerate(NATURAL):
        if not ctx.mine(ni):
            continue
        Model = fsic.build_model(fsic.parse_model(script))
        for errors in ('raise', 'skip', 'ignore', 'replace'):
            for cfe in (True, False):
                for failures in ('raise', 'ignore'):
                    for max_iter in (1, 3):
                        case = dict(kind='natural', script=script, data=data, errors=errors, cfe=cfe, failures=failures, max_iter=max_iter)
                        ctx.evaluation(case, nontrivial=True, sample=case)
                        m = Model(range(4), **data)
                        for nm in Model.ENDOGENOUS:
                            m[nm] = 7.0
                        log = rec.install(m)
                        res = {}
                        with warnings.catch_warnings():
                            warnings.simplefilter('ignore')
                            try:
                                res['ret'] = m.solve_t(1, errors=errors, catch_first_error=cfe, failures=failures, max_iter=max_iter)
                            except Exception as e:
                                res['exc'] = type(e).__name__
                                res['cause'] = type(e.__cause__).__name__ if e.__cause__ is not None else None
                        log.enabled = False
                        ctx.count('natural_fault_runs')
                        writes = [name for k, name, i in log if k == 'w' and name in Model.ENDOGENOUS]
                        endo = list(Model.ENDOGENOUS)
                        faulting = endo[fault_stmt] if fault_stmt < len(endo) else None
                        status, its = str(rec.plain(m, 'status')[1]), int(rec.plain(m, 'iterations')[1])
                        ctx.seen('natural_outcomes', f'{errors}:{cfe}:{res.get("exc", res.get("ret"))}:{status}')
                        # is the fault a warning (NumPy) or an exception (Python float arithmetic)?
                        if errors == 'raise':
                            if res.get('exc') != 'SolutionError' or status != 'E' or its != 1:
                                ctx.violation('natural-fault-raise', f'errors=raise: expected SolutionError / E / 1, got {res} status {status} iterations {its}', case)
                                continue
                            if cfe and faulting in writes:
                                ctx.violation('faulting-statement-stored', f'catch_first_error: the faulting statement still wrote {faulting} (writes: {writes})', case)
                            if cfe and float(rec.plain(m, faulting)[1]) != 7.0:
                                ctx.violation('faulting-statement-stored', f'catch_first_error: {faulting}[t] changed to {rec.plain(m, faulting)[1]}', case)
                            if cfe and res.get('cause') is None:
                                ctx.violation('exception-chain', 'SolutionError from a caught warning/exception is not chained to it', case)
                        elif errors == 'skip':
                            if res.get('exc') == 'SolutionError' and res.get('cause') not in (None, 'RuntimeWarning'):
                                ctx.count('natural_python_exception_under_skip')   # a Python exception (not a NumPy warning): surfaces as SolutionError
                            elif not (res.get('ret') is False and status == 'S' and its == 1):
                                ctx.violation('natural-fault-skip', f'errors=skip: expected False / S / 1, got {res} status {status} iterations {its}', case)
                        else:
                            if res.get('exc') == 'SolutionError' and res.get('cause') not in (None, 'RuntimeWarning'):
                                ctx.count('natural_python_exception_under_ignore')
                            elif status not in ('.', 'F') or its > max_iter:
                                ctx.violation('natural-fault-ignore', f'errors={errors}: expected . or F within {max_iter}, got {res} status {status} iterations {its}', case)
                            elif status == 'F' and ((failures == 'raise') != (res.get('exc') == 'NonConvergenceError')):
                                ctx.violation('natural-fault-ignore', f'errors={errors}, failures={failures}: status F but outcome {res}', case)


def multi_period(ctx, Model):
    """solve(): 'skip' moves on to the next period; 'raise' stops there; earlier periods complete."""
    rng = ctx.rng('c06-multi')
    n = 6
    count = ctx.pick(150, 1500)
    for i in range(count):
        if not ctx.mine(i):
            continue
        q = rng.randrange(n)
        kind = rng.choice(FAULTS)
        errors = rng.choice(['raise', 'skip', 'ignore', 'replace'])
        failures = rng.choice(['raise', 'ignore'])
        cfe = rng.choice([True, False])
        case = dict(kind='multi', q=q, fault=kind, errors=errors, failures=failures, cfe=cfe)
        ctx.evaluation(case, nontrivial=True, sample=case)
        m = Model(range(n), tol=0.5, X=1.0)
        m.__dict__['v_scripts_by_t'] = {q: [(kind, 'same'), ('zero', 'same')]}
        res = {}
        with warnings.catch_warnings():
            warnings.simplefilter('ignore')
            try:
                res['ret'] = m.solve(errors=errors, failures=failures, catch_first_error=cfe, tol=0.5, max_iter=5)
            except Exception as e:
                res['exc'] = type(e).__name__
        ctx.count('multi_period_runs')
        ctx.count('faults_injected')
        st = ''.join(m.status)
        stops = kind in ('exc', 'excse') or errors == 'raise'
        if stops:
            want_prefix = '.' * q
            if res.get('exc') != 'SolutionError' or not st.startswith(want_prefix) or st[q + 1:] != '-' * (n - q - 1):
                ctx.violation('multi-period-stop', f'fault {kind} at period {q}, errors={errors}: expected SolutionError with statuses {want_prefix}?{"-" * (n - q - 1)}, got {res} statuses {st}', case)
            elif errors == 'raise' and st[q] != 'E':
                ctx.violation('multi-period-stop', f'failing period status {st[q]!r}, expected E', case)
        elif errors == 'skip':
            want = '.' * q + 'S' + '.' * (n - q - 1)
            if 'exc' in res or st != want or res['ret'][2] != [c == '.' for c in want]:
                ctx.violation('multi-period-skip', f'fault {kind} at period {q}, errors=skip: expected statuses {want}, got {res} {st}', case)
        else:
            if 'exc' in res or set(st) - set('.') or not all(res['ret'][2]):
                ctx.violation('multi-period-ignore', f'fault {kind} at period {q}, errors={errors} then healed: expected all periods solved, got {res} {st}', case)


def replay(ctx, case):
    if case.get('kind') in ('natural', 'multi'):
        ctx.inconclusive_because('natural/multi-period cases are replayed by re-running the shard with the same seed')
        return
    for k in ('start', 'offset_source'):
        if case.get(k):
            case[k] = {kk: float(vv) for kk, vv in case[k].items()}
    ctx.evaluation(case, nontrivial=True)
    run_case(ctx, scripted.make_model_class(), case)
