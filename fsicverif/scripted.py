"""Scripted models and the reference solver state machine (C02, C05, C06, C17).

A ScriptedModel plays an *outcome script*: evaluation pass k applies outcome k to its
check variables (stay, move by just under / exactly / over tol, NaN, +-inf, a
warning-raising NumPy operation, a Python exception, heal to zero).  The harness logs
every hook and pass with its keyword arguments.  `ref_solve_t` is the statement of
C02/C06 as a small executable model over the same outcome script."""
import math
import warnings

import numpy as np

FINITE_OUT = ['same', 'small', 'eq', 'big']
FAULT_OUT = ['nan', 'pinf', 'ninf', 'warn', 'exc', 'zero']


WRITE_MODES = ['inplace', 'inplace', 'inplace', 'list-attr', 'list-item', 'replace_values']


EXC_CAUSE = {'exc': 'Boom', 'excse': 'SolutionError', 'excfpe': 'FloatingPointError'}     # raising outcomes / hook faults -> class of the chained original


class Boom(Exception):
    pass


def apply_outcome(value, o, tol, x=0.0):
    """New stored value of a check variable after outcome `o` (pure function used by the
    scripted model and by the reference alike).  Returns ('raise', exc) for 'exc'."""
    base = value if math.isfinite(value) else 0.0
    if o == 'same':
        return value
    if o == 'small':
        return base + tol * 0.5
    if o == 'eq':
        return base + tol
    if o == 'big':
        return base + tol * 4 + (1.0 if tol == 0 else 0.0)
    if o == 'huge':
        return 1.0e308        # finite, but two of them no longer add up to a finite number
    if o == 'nhuge':
        return -1.0e308       # finite; its distance from 'huge' is not
    if o == 'nan':
        return math.nan
    if o == 'pinf':
        return math.inf
    if o == 'ninf':
        return -math.inf
    if o == 'zero':
        return 0.0
    if o == 'warn':
        return -math.inf  # np.log(0.0) -> RuntimeWarning, -inf
    if o == 'uwarn':
        return value      # warnings.warn(..., UserWarning): a warning of another category; the statement re-stores the value it found
    raise ValueError(o)


def make_model_class():
    import fsic

    class ScriptedModel(fsic.BaseModel):
        ENDOGENOUS = ['A', 'B']
        EXOGENOUS = ['X']
        NAMES = ENDOGENOUS + EXOGENOUS
        CHECK = ENDOGENOUS
        LAGS = 0
        LEADS = 0

        def __init__(self, *a, script=(), tol=0.5, before_fault=None, after_fault=None, **k):
            super().__init__(*a, **k)
            d = self.__dict__
            d['v_script'] = list(script)      # per pass: (outcome for A, outcome for B)
            d['v_tol'] = tol
            d['v_log'] = []
            d['v_before_fault'] = before_fault
            d['v_after_fault'] = after_fault
            d['v_scripts_by_t'] = None        # optional {t: script} for multi-period runs

        def _fault(self, kind, t):
            if kind == 'exc':
                raise Boom('hook')
            if kind == 'excse':
                from fsic.exceptions import SolutionError
                raise SolutionError('raised by the hook itself')     # an exception of the solver's own class is still *wrapped and chained*
            if kind == 'warn':
                np.log(self._X[t] * 0.0)
            if kind == 'uwarn':
                warnings.warn('scripted warning of another category', UserWarning)

        def solve_t_before(self, t, **kw):
            self.__dict__['v_log'].append(('before', t, kw.get('iteration'), dict(kw)))
            if (self.__dict__.get('v_write_mode') or 'inplace') != 'inplace':
                self.A = [float(v) for v in self.__dict__['_A']]    # same values, new array
            self._fault(self.__dict__['v_before_fault'], t)

        def solve_t_after(self, t, **kw):
            self.__dict__['v_log'].append(('after', t, kw.get('iteration'), dict(kw)))
            self._fault(self.__dict__['v_after_fault'], t)
            self._fault((self.__dict__.get('v_after_fault_by_t') or {}).get(t if t >= 0 else t + len(self.span)), t)      # a post-hook fault in one period only

        def _evaluate(self, t, *, iteration=None, **kw):
            d = self.__dict__
            d['v_log'].append(('eval', t, iteration, dict(kw)))
            script = d['v_script']
            if d['v_scripts_by_t'] is not None:
                tt = t if t >= 0 else t + len(self.span)
                script = d['v_scripts_by_t'].get(tt, ())
            pair = script[iteration - 1] if iteration is not None and iteration - 1 < len(script) else ('same', 'same')
            tol = d['v_tol']
            mode = d.get('v_write_mode') or 'inplace'
            for name, o in zip(('A', 'B'), pair):
                arr = d['_' + name]
                if o == 'exc':
                    raise Boom('pass')
                if o == 'excse':
                    from fsic.exceptions import SolutionError
                    raise SolutionError('raised inside the pass')
                if o == 'uwarn':
                    warnings.warn('scripted warning of another category', UserWarning)
                    val = float(arr[t])
                elif o == 'warn':
                    val = np.log(self._X[t] * 0.0)   # RuntimeWarning: divide by zero -> -inf
                else:
                    val = apply_outcome(float(arr[t]), o, tol)
                if mode == 'inplace':
                    arr[t] = val
                else:
                    # the same assignment made through a whole-series write (a Python sequence replaces the stored array)
                    series = [float(v) for v in arr]
                    series[t] = float(val)
                    if mode == 'list-attr':
                        setattr(self, name, series)
                    elif mode == 'list-item':
                        self[name] = series
                    elif mode == 'replace_values':
                        self.replace_values(**{name: series})
                    else:
                        raise ValueError(mode)
            if d.get('v_touch_exog'):
                d['_X'][t] = 1.0 + 0.5 * (iteration or 0)     # a scripted model may also move a variable it does not list as endogenous
            d.setdefault('v_passvals', []).append((t, iteration, {nm: float(d['_' + nm][t]) for nm in ('A', 'B', 'X')}))

    return ScriptedModel


def ref_solve_t(script, start, check, *, min_iter, max_iter, tol, failures, errors, cfe, before_fault=None, after_fault=None, scale=None):
    """The statement of C02/C06 as an executable model.

    script: list of (oA, oB); start: {'A': v, 'B': v} values at t after any offset copy
    check: names judged for convergence.
    Returns dict with keys: kind 'ret'|'exc', value (True/False or exception class name),
    cause, status, iterations, evals, befores, afters, stored {'A','B'}; a value of None
    means "not specified by the statement" and is not compared."""
    out = dict(evals=0, befores=0, afters=0, after_iteration=None)
    scale = tol if scale is None else scale      # size of the scripted moves; `tol` is what the solver is asked to converge to
    stored = dict(start)
    nonfin = lambda vals: any(not math.isfinite(v) for v in vals)  # noqa: E731

    def done(**kw):
        out.update(kw)
        out['stored'] = dict(stored)
        return out

    if min_iter > max_iter:
        return done(kind='exc', value='ValueError', status='unchanged', iterations='unchanged', nothing_changed=True)
    view = [stored[c] for c in check]
    if errors == 'raise' and nonfin(view):
        return done(kind='exc', value='SolutionError', status='unchanged', iterations='unchanged', nothing_changed=True)
    out['befores'] = 1
    strict = errors == 'raise' and cfe
    WARN_CAUSE = {'warn': 'RuntimeWarning', 'uwarn': 'UserWarning'}       # any warning category counts, not just NumPy's
    if before_fault in EXC_CAUSE or (before_fault in WARN_CAUSE and strict):
        return done(kind='exc', value='SolutionError', cause=EXC_CAUSE.get(before_fault) or WARN_CAUSE[before_fault], status=None, iterations=None)
    k = 0
    for k in range(1, max_iter + 1):
        pair = script[k - 1] if k - 1 < len(script) else ('same', 'same')
        out['evals'] += 1
        prev = list(view)
        # apply the pass, statement by statement
        for name, o in zip(('A', 'B'), pair):
            if o in EXC_CAUSE:
                return done(kind='exc', value='SolutionError', cause=EXC_CAUSE[o], status='E' if errors == 'raise' else None,
                            iterations=k if errors == 'raise' else None)
            if o in WARN_CAUSE and strict:
                # the warning-producing statement does not store its result
                return done(kind='exc', value='SolutionError', cause=WARN_CAUSE[o], status='E', iterations=k)
            stored[name] = apply_outcome(stored[name], o, scale)
        new = [stored[c] for c in check]
        if nonfin(prev):
            view = new
            continue
        if nonfin(new):
            if errors == 'raise':
                return done(kind='exc', value='SolutionError', cause=None, status='E', iterations=k)
            if errors == 'skip':
                return done(kind='ret', value=False, status='S', iterations=k)
            if errors in ('ignore', 'replace'):
                if k == max_iter:
                    view = new
                    break
                view = [v if math.isfinite(v) else 0.0 for v in new] if errors == 'replace' else new
                continue
            return done(kind='exc', value='ValueError', status=None, iterations=None)
        view = new
        if k >= min_iter and all(abs(a - b) < tol for a, b in zip(new, prev)):
            out['afters'] = 1
            out['after_iteration'] = k
            if after_fault in EXC_CAUSE or (after_fault in WARN_CAUSE and strict):
                return done(kind='exc', value='SolutionError', cause=EXC_CAUSE.get(after_fault) or WARN_CAUSE[after_fault], status=None, iterations=None)
            return done(kind='ret', value=True, status='.', iterations=k)
    if failures == 'raise':
        return done(kind='exc', value='NonConvergenceError', cause=None, status='F', iterations=max_iter)
    return done(kind='ret', value=False, status='F', iterations=max_iter)


SPAN_KINDS = ['range', 'range', 'range', 'tuples', 'strings', 'mixed', 'percent-strings']


def make_span(kind, n):
    """Spans for the scripted single-period runs: the period *labels* (which end up in messages, never in the arithmetic) vary."""
    if kind == 'tuples':
        return [(2000 + i // 4, i % 4 + 1) for i in range(n)]
    if kind == 'strings':
        return [f'p{i}' for i in range(n)]
    if kind == 'mixed':
        return [None, (1,), 'x y', 2.5, frozenset({3}), b'b', True, ()][:n] + [f'q{i}' for i in range(max(0, n - 8))]
    if kind == 'percent-strings':
        return [f'{i}%s {{}} %d' for i in range(n)]
    return range(n)


_HOOKLESS = {}


def effective_faults(case):
    """(script, before_fault, after_fault) as the reference must read them under the caller's NumPy error state: with
    np.errstate(all='ignore') a warning-raising operation is just an operation that yields -inf, with all='raise' it is a Python
    exception (FloatingPointError) like any other."""
    es = case.get('caller_errstate')
    if isinstance(es, dict):
        es = es.get('divide')        # the scripted warning-raising operation is log(0): a divide-by-zero fault
    in_pass = {'ignore': 'ninf', 'raise': 'excfpe'}.get(es, 'warn')
    in_hook = {'ignore': None, 'raise': 'excfpe'}.get(es, 'warn')
    script = [tuple(in_pass if o == 'warn' else o for o in p) for p in case['script']]
    fix = lambda f: in_hook if f == 'warn' else f      # noqa: E731
    return script, fix(case.get('before_fault')), fix(case.get('after_fault'))


def run_solve_t(Model, case):
    """Run one scripted single-period solve on the real solver and collect observations."""
    n = case.get('n', 4)
    t = case['t']
    tn = t if t >= 0 else t + n
    cls = Model
    if case.get('hook_binding') == 'instance':
        # the class itself keeps BaseModel's do-nothing hooks; the scripted hooks are attached to the instance (as a user, or a
        # mock, would: `model.solve_t_before = f`)
        import fsic
        cls = _HOOKLESS.get(Model) or _HOOKLESS.setdefault(Model, type('Hookless' + Model.__name__, (Model,), {
            'solve_t_before': fsic.BaseModel.solve_t_before, 'solve_t_after': fsic.BaseModel.solve_t_after}))
    m = cls(make_span(case.get('span_kind'), n), script=[tuple(p) for p in case['script']], tol=case['tol'], X=1.0,
            before_fault=case.get('before_fault'), after_fault=case.get('after_fault'))
    if case.get('check') is not None:
        m.check = list(case['check'])
    if case.get('endogenous') is not None:
        # the instance's own list of endogenous variables (what an offset copies) need not cover everything the passes write or
        # everything that is watched for convergence: a watched variable is read afresh after every pass all the same
        m.endogenous = list(case['endogenous'])
    m.__dict__['v_write_mode'] = case.get('write_mode')
    for name in ('A', 'B'):
        m.__dict__['_' + name][:] = 0.0
    # distinct, recognisable values in every period
    for i in range(n):
        m.A[i] = case['start'].get('A', 0.0) if i == tn else 10.0 + i
        m.B[i] = case['start'].get('B', 0.0) if i == tn else 20.0 + i
    if case.get('offset_source') is not None:
        src = tn + case['offset']
        if 0 <= src < n:
            m.A[src] = case['offset_source'].get('A', 0.0)
            m.B[src] = case['offset_source'].get('B', 0.0)
    if case.get('x_at_source') in ('nan', 'inf') and case.get('offset') and 0 <= tn + case['offset'] < n:
        m.X[tn + case['offset']] = math.nan if case['x_at_source'] == 'nan' else math.inf
    hist = case.get('history')
    if hist:
        # the model reaches the call through a copy, a reindex onto its own span, or a round trip through pickle
        import copy as _copy
        import pickle as _pickle
        if hist == 'copy':
            m = m.copy()
        elif hist == 'deepcopy':
            m = _copy.deepcopy(m)
        elif hist == 'reindex':
            m = m.reindex(make_span(case.get('span_kind'), n))
        elif hist == 'add-variable':
            m.add_variable('Late', 3.5)
    if case.get('hook_binding') == 'instance':
        # (attached last: an object that refers to itself through an attribute cannot be copied - not this property's subject)
        import types
        m.solve_t_before = types.MethodType(Model.solve_t_before, m)
        m.solve_t_after = types.MethodType(Model.solve_t_after, m)
    if case.get('prior_record'):
        # every period already carries a solution record from an earlier call
        m.status[:] = case['prior_record'][0]
        m.iterations[:] = case['prior_record'][1]
    before = snapshot_model(m)
    kw = dict(min_iter=case['min_iter'], max_iter=case['max_iter'], tol=case.get('solver_tol', case['tol']), failures=case['failures'],
              errors=case['errors'], catch_first_error=case['cfe'])
    if case.get('offset'):
        kw['offset'] = case['offset']
    style = case.get('arg_style') or 'plain'
    if style == 'omit-defaults':
        # leaving an option out means its documented default
        for k, dflt in (('min_iter', 0), ('failures', 'raise'), ('errors', 'raise'), ('catch_first_error', True), ('max_iter', 100), ('tol', 1e-10)):
            if type(kw[k]) is type(dflt) and kw[k] == dflt:
                del kw[k]
    elif style == 'explicit-defaults':
        kw.setdefault('offset', 0)
    elif style == 'numpy-ints':
        # integers of another integer type (what arithmetic on NumPy arrays hands back)
        for k in ('min_iter', 'max_iter', 'offset'):
            if k in kw:
                kw[k] = np.int64(kw[k]) if k != 'offset' else np.int32(kw[k])
    elif style == 'bools':
        # True / False are the integers 1 / 0
        for k in ('min_iter', 'max_iter'):
            if kw[k] in (0, 1):
                kw[k] = bool(kw[k])
    obs = {}
    import contextlib
    es = case.get('caller_errstate')
    with warnings.catch_warnings(), ((np.errstate(**es) if isinstance(es, dict) else np.errstate(all=es)) if es else contextlib.nullcontext()):
        obs['errstate_before'] = dict(np.geterr())
        # the caller's own warnings set-up (process-wide filters such as -W error) is none of the solver's business: the outcome is the same
        warnings.simplefilter(case.get('caller_filter') or 'ignore')
        obs['filters_before'] = [(f[0], repr(f[1]), f[2].__name__, repr(f[3]), f[4]) for f in warnings.filters]
        try:
            if case.get('entry') == 'solve_period':
                obs['ret'] = m.solve_period(m.span[tn], **kw)
            else:
                obs['ret'] = m.solve_t(np.int64(t) if case.get('t_numpy') else t, **kw)
            obs['kind'] = 'ret'
        except BaseException as e:  # noqa: BLE001 - the class is the observation
            obs['kind'] = 'exc'
            obs['exc'] = type(e).__name__
            obs['cause'] = type(e.__cause__).__name__ if e.__cause__ is not None else None
            obs['msg'] = str(e)[:200]
        obs['errstate_after'] = dict(np.geterr())
        obs['filters_after'] = [(f[0], repr(f[1]), f[2].__name__, repr(f[3]), f[4]) for f in warnings.filters]
    log = m.__dict__['v_log']
    obs['status'] = str(m.status[tn])
    obs['iterations'] = int(m.iterations[tn])
    obs['evals'] = [x[2] for x in log if x[0] == 'eval']
    obs['befores'] = [x[2] for x in log if x[0] == 'before']
    obs['afters'] = [x[2] for x in log if x[0] == 'after']
    obs['order'] = [x[0] for x in log]
    obs['ts'] = sorted({x[1] for x in log})
    obs['kwargs_ok'] = all(x[3].get('errors') == case['errors'] and x[3].get('catch_first_error') == case['cfe'] for x in log)
    obs['stored'] = {'A': float(m.A[tn]), 'B': float(m.B[tn])}
    obs['after_state'] = snapshot_model(m)
    obs['before_state'] = before
    obs['tn'] = tn
    return obs


def snapshot_model(m):
    return {name: np.array(m.__dict__['_' + name]).copy() for name in list(m.__dict__['index'])}


def changed_cells(a, b):
    """Set of (name, position) cells that differ between two snapshots."""
    out = set()
    for name in a:
        x, y = a[name], b[name]
        for i in range(len(x)):
            same = x[i] == y[i] or (isinstance(x[i], (float, np.floating)) and np.isnan(x[i]) and np.isnan(y[i]))
            if not same:
                out.add((name, i))
    return out


def feq(a, b):
    return a == b or (isinstance(a, float) and isinstance(b, float) and math.isnan(a) and math.isnan(b))


def compare(case, want, obs):
    """List of (mechanism, message) disagreements between the reference and the observation."""
    probs = []
    tn = obs['tn']
    # universal clauses
    if obs['status'] not in ('-', '.', 'F', 'E', 'S'):
        probs.append(('status-alphabet', f'status {obs["status"]!r} is not one of - . F E S'))
    if obs.get('ret') is True and obs['status'] != '.':
        probs.append(('solved-flag', f'returned True with status {obs["status"]!r}'))
    if obs.get('kind') == 'ret' and obs['status'] == '.' and obs.get('ret') is not True:
        probs.append(('solved-flag', f'status "." but returned {obs.get("ret")!r}'))
    if obs.get('filters_after') != obs.get('filters_before'):
        extra = [f for f in obs.get('filters_after', []) if f not in obs.get('filters_before', [])][:2]
        gone = [f for f in obs.get('filters_before', []) if f not in obs.get('filters_after', [])][:2]
        probs.append(('process-wide-state-changed', f'the call left the caller\'s warnings filters changed: added {extra}, removed {gone} (or reordered)'))
    if obs.get('errstate_after') != obs.get('errstate_before'):
        probs.append(('process-wide-state-changed', f'the call left the caller\'s NumPy error state changed: {obs.get("errstate_before")} -> {obs.get("errstate_after")}'))
    changed = changed_cells(obs['before_state'], obs['after_state'])
    allowed = {('A', tn), ('B', tn), ('status', tn), ('iterations', tn)}
    if changed - allowed:
        probs.append(('foreign-cells-changed', f'cells outside period {tn} changed: {sorted(changed - allowed)}'))
    if case['errors'] not in ('raise', 'skip', 'ignore', 'replace'):
        return probs  # invalid policy: only the universal clauses are specified
    # outcome
    if want['kind'] == 'ret':
        if obs['kind'] != 'ret' or obs.get('ret') is not want['value']:
            probs.append(('result', f'expected return {want["value"]!r}, got {obs.get("ret", obs.get("exc"))!r} {obs.get("msg", "")}'))
    else:
        if obs['kind'] != 'exc' or obs.get('exc') != want['value']:
            probs.append(('exception-class', f'expected {want["value"]}, got {obs.get("exc", ("returned", obs.get("ret")))!r} {obs.get("msg", "")}'))
        elif want.get('cause') is not None and obs.get('cause') != want['cause']:
            probs.append(('exception-chain', f'expected __cause__ {want["cause"]}, got {obs.get("cause")}'))
    if want.get('nothing_changed'):
        if changed:
            probs.append(('rejected-call-mutates', f'rejected call changed {sorted(changed)}'))
        if obs['order']:
            probs.append(('rejected-call-runs-hooks', f'rejected call ran {obs["order"]}'))
        return probs
    if want.get('status') is not None and obs['status'] != want['status']:
        probs.append(('status', f'expected status {want["status"]!r}, got {obs["status"]!r}'))
    if obs['kind'] == 'exc' and obs['status'] == '.' and (('status', tn) in changed or ('iterations', tn) in changed):
        # '.' is what a call records when it returns True; a call that raised instead has not recorded the period as solved
        probs.append(('raised-but-recorded-solved', f'the call raised {obs.get("exc")} yet left the period recorded as solved (status ".", iterations {obs["iterations"]})'))
    if want.get('iterations') is not None and obs['iterations'] != want['iterations']:
        probs.append(('iterations', f'expected iterations[t] = {want["iterations"]}, got {obs["iterations"]}'))
    if len(obs['evals']) != want['evals'] or obs['evals'] != list(range(1, want['evals'] + 1)):
        probs.append(('pass-count', f'expected passes 1..{want["evals"]}, observed {obs["evals"]}'))
    if len(obs['befores']) != want['befores'] or (obs['befores'] and (obs['order'][0] != 'before' or obs['befores'] != [0])):
        probs.append(('pre-hook', f'expected {want["befores"]} pre-hook call(s) before the first pass, observed order {obs["order"][:4]} iterations {obs["befores"]}'))
    if len(obs['afters']) != want['afters'] or (want['afters'] and (obs['order'][-1] != 'after' or obs['afters'] != [want['after_iteration']])):
        probs.append(('post-hook', f'expected {want["afters"]} post-hook call(s) after pass {want["after_iteration"]}, observed {obs["afters"]} order tail {obs["order"][-3:]}'))
    want_t = tn if case.get('entry') == 'solve_period' else case['t']
    if obs['ts'] and obs['ts'] != [want_t]:
        probs.append(('hook-period', f'hooks/passes ran for t={obs["ts"]}, expected only {want_t}'))
    if not obs['kwargs_ok']:
        probs.append(('hook-kwargs', 'errors/catch_first_error not forwarded to hooks or passes'))
    for name in ('A', 'B'):
        if not feq(obs['stored'][name], want['stored'][name]):
            probs.append(('stored-value', f'{name}[t] = {obs["stored"][name]!r}, expected {want["stored"][name]!r}'))
    return probs
