"""C09 - container series keep their length and dtype under every assignment history.

Monitor: a class invariant (every series 1-D, one element per period, creation dtype;
values/size/nbytes consistent) asserted by the harness after every operation of a
generated history and, when icontract is available, additionally enforced as an
icontract.invariant on a harness-side subclass (its evaluations are counted).  Failed
single-variable assignments are checked with a before/after snapshot; the strict clauses
are checked against a non-strict twin receiving the same operation."""
import copy
import itertools
import os
import sys

import numpy as np

from . import common

PROPERTY = 'C09'
LEVEL = 'exploration'
RULE = ('histories over the alphabet {add_variable, attribute set, item set, (name,label) set, (name,label-slice) set, '
        'replace_values, values setter array/scalar, add_attribute, new-attribute set, toggle strict} with operands from scalars, '
        'lists, tuples, ranges, nested lists whose outer length equals the span, right/wrong-length and 2-D arrays, dtypes '
        'float/int/bool/str, on VectorContainer, BaseModel and BaseLinker: exhaustive for length <= 2 over a representative operand '
        'set, random up to length 12. non-trivial = distinct history (operation, operand, target sequence) of length >= 1')
ASSUMPTIONS = ['"dtype it was created with": dtype of the series right after add_variable / construction',
               'a failed assignment may raise any exception class; only "raises and leaves every series unchanged" is asserted',
               'a failing *value conversion* (a NumPy array of the right length holding text, or NaN / inf for an integer variable) is not one of the "cannot fit" categories of the statement '
               '(wrong length or shape, unknown or duplicate name): NumPy casts such an array element by element and may have stored a prefix before raising - counted, not asserted']
ANCHORS = [('fsic/core/containers.py', 'VectorContainer.add_variable'), ('fsic/core/containers.py', 'VectorContainer.__setattr__'),
           ('fsic/core/containers.py', 'VectorContainer.__setitem__'), ('fsic/core/containers.py', 'VectorContainer.replace_values'),
           ('fsic/core/containers.py', 'VectorContainer.add_attribute'), ('fsic/core/interfaces.py', 'ModelInterface.add_variable'),
           ('fsic/core/containers.py', 'VectorContainer.size'), ('fsic/core/interfaces.py', 'ModelInterface.size')]
REQUIRED_COUNTERS = {'operations_applied': 5000, 'invariant_checks': 5000, 'failed_assignments_checked': 500, 'strict_twin_comparisons': 300}
LEVEL_TEXT = ('Class-invariant monitor asserted after every operation of exhaustive short and random long operation histories on '
              'the three container classes, with snapshot diffs around failing assignments and a non-strict twin for the strict clauses.')
LEVEL_NOTE = 'Trusted: the invariant predicate (15 lines). Bounded by history length and the operand catalogue.'
TECHNIQUE = 'class invariant at every step (icontract.invariant + harness assertion) + snapshot diff on failed operations'


class InvariantBroken(Exception):
    pass


def nshards(tier):
    return 16


def predicate(self):
    """The class invariant (also used as icontract invariant)."""
    d = self.__dict__
    if 'index' not in d or 'span' not in d:
        return True
    n = len(d['span'])
    for k in d['index']:
        a = d.get('_' + k)
        if not isinstance(a, np.ndarray) or a.ndim != 1 or a.shape[0] != n:
            return False
    return True


_ICON = {'available': None, 'evaluations': 0}


def counting_predicate(self):
    _ICON['evaluations'] += 1
    return predicate(self)


def monitored(cls):
    """Subclass with the invariant attached through icontract when available."""
    if _ICON['available'] is None:
        deps = os.path.join(common.VERIF_ROOT, '.deps')
        if os.path.isdir(deps) and deps not in sys.path:
            sys.path.append(deps)
        try:
            import icontract  # noqa: F401
            _ICON['available'] = True
        except Exception:
            _ICON['available'] = False
    Sub = type('Monitored' + cls.__name__, (cls,), {})
    if _ICON['available']:
        import icontract
        try:
            Sub = icontract.invariant(counting_predicate, error=InvariantBroken)(Sub)
        except Exception:
            pass
    return Sub


def snap(c):
    d = c.__dict__
    return {'index': list(d['index']), 'attrs': list(d['_attributes']), 'span': repr(list(d['span'])), 'class_names': repr(getattr(type(c), 'NAMES', None)),
            'plain': {k: repr(v) for k, v in d.items() if k in ('names', 'lags', 'leads', 'strict', 'memo', 'note', 'check', 'endogenous')},
            'series': {k: (np.array(d.get('_' + k)).copy(), np.asarray(d.get('_' + k)).dtype, np.asarray(d.get('_' + k)).shape) for k in d['index']},
            'keys': sorted(k for k in d if not k.startswith('v_'))}


def series_same(a, b):
    if a['index'] != b['index']:
        return False
    for k in a['series']:
        x, dx, sx = a['series'][k]
        y, dy, sy = b['series'][k]
        if dx != dy or sx != sy:
            return False
        if x.dtype.kind == 'f':
            if not np.array_equal(x, y, equal_nan=True):
                return False
        else:
            try:
                if x.tolist() != y.tolist() and (x.dtype.kind != 'O' or _norm(x.tolist()) != _norm(y.tolist())):
                    return False
            except ValueError:   # object series holding arrays
                if repr(_norm(x.tolist())) != repr(_norm(y.tolist())):
                    return False
    return True


def _norm(o):
    """Object-series items by content: the library's own record objects (one per period, no __eq__) by class and attributes."""
    if isinstance(o, (list, tuple)):
        return [_norm(v) for v in o]
    if isinstance(o, np.ndarray):
        return ['ndarray', str(o.dtype), _norm(o.tolist())]
    if type(o).__module__.startswith('fsic') and hasattr(o, '__dict__'):
        return [type(o).__name__, {k: _norm(v) for k, v in sorted(vars(o).items())}]
    return o


def check_invariant(ctx, c, dtypes, hist, kind):
    ctx.count('invariant_checks')
    d = c.__dict__
    n = len(d['span'])
    case = {'kind': kind, 'n': n, 'history': hist}
    if len(set(d['index'])) != len(d['index']):
        ctx.violation('index-duplicate', f'{kind}: after {hist[-1]}, index lists a name twice: {d["index"]}', case)
        return False
    for k in d['index']:
        a = d.get('_' + k)
        if not isinstance(a, np.ndarray) or a.ndim != 1 or a.shape[0] != n:
            ctx.violation('series-shape', f'{kind}: after {hist[-1]}, series {k} has shape {getattr(a, "shape", type(a))} for a span of {n}', case)
            return False
        if k in dtypes and a.dtype != dtypes[k]:
            ctx.violation('series-dtype', f'{kind}: after {hist[-1]}, series {k} has dtype {a.dtype}, created as {dtypes[k]}', case)
            return False
    names = list(d['names']) if 'names' in d else list(d['index'])
    declared = [k for k in d['index'] if k not in ('status', 'iterations', getattr(type(c), 'TRACE_NAME', None))]
    if 'names' in d and names != declared:
        ctx.violation('names-out-of-step', f'{kind}: after {hist[-1]}, names {names} differ from the declared variables {declared} (values/size are built from names)', case)
        return False
    try:
        v = c.values
        own_size = len(names) * n
        if len(names) and tuple(v.shape) != (len(names), n):
            ctx.violation('values-shape', f'{kind}: after {hist[-1]}, values has shape {v.shape}, expected {(len(names), n)}', case)
            return False
        numeric = all(np.asarray(d['_' + k]).dtype.kind in 'fiub' for k in names)
        if numeric and len(names):
            for i, k in enumerate(names):
                if not np.array_equal(np.asarray(v[i], dtype=float), np.asarray(d['_' + k], dtype=float), equal_nan=True):
                    ctx.violation('values-content', f'{kind}: row {i} of values differs from series {k}', case)
                    return False
        if kind.startswith('linker'):
            want_size = own_size + sum(sm.size for sm in d['submodels'].values())
        else:
            want_size = own_size
        if c.size != want_size:
            ctx.violation('size', f'{kind}: size {c.size}, expected {want_size}', case)
            return False
    except Exception as e:
        ctx.violation('values-raise', f'{kind}: after {hist[-1]}, values/size raised {type(e).__name__}: {e}', case)
        return False
    return True


import enum as _enum


class Flag(str, _enum.Enum):
    A = 'ab'


# scalar operands that are NumPy scalars or subclasses of a Python type -> the plain Python value they stand for
PLAIN_EQUIVALENT = {'np.str_': lambda: 'ab', 'np.str_-number': lambda: '2.5', 'np.float64': lambda: 1.5, 'np.int64': lambda: 3, 'np.bool_': lambda: True}      # (Enum members are left out: NumPy itself stores str(member), not the member's value)


class Three(_enum.IntEnum):
    THREE = 3


def operands(n):
    """Representative operand catalogue: (tag, factory)."""
    return [
        ('int', lambda: 3), ('float', lambda: 2.5), ('bool', lambda: True), ('str', lambda: 'ab'), ('np.float64', lambda: np.float64(1.5)),
        ('np.str_', lambda: np.str_('ab')), ('np.str_-number', lambda: np.str_('2.5')), ('np.int64', lambda: np.int64(3)), ('np.bool_', lambda: np.bool_(True)),
        ('list-n', lambda: [0.5 * i for i in range(n)]), ('list-int-n', lambda: list(range(n))), ('list-n+1', lambda: [1.0] * (n + 1)),
        ('list-1', lambda: [4.0]), ('list-0', lambda: []), ('tuple-n', lambda: tuple([True] * n)), ('range-n', lambda: range(n)),
        ('range-n-1', lambda: range(max(n - 1, 0))), ('list-str-n', lambda: ['s'] * n),
        ('nested-nxn', lambda: [list(range(n)) for _ in range(n)]), ('nested-nx2', lambda: [[1, 2]] * n), ('nested-nx1', lambda: [[1.5]] * n),
        ('nested-1xn', lambda: [list(range(n))]),
        ('array-n', lambda: np.arange(n, dtype=float)), ('array-int-n', lambda: np.arange(n)), ('array-n+1', lambda: np.ones(n + 1)),
        ('array-nx1', lambda: np.ones((n, 1))), ('array-1xn', lambda: np.ones((1, n))), ('array-nxn', lambda: np.ones((n, n))),
        ('array-0d', lambda: np.array(7.0)), ('none', lambda: None),
        ('array-n-int64', lambda: np.arange(n, dtype=np.int64)), ('array-n-bool', lambda: np.arange(n) % 2 == 0), ('array-n-str', lambda: np.array(['s'] * n)),
        # pandas objects where an array is expected (positional, whatever their own index says)
        ('pd-series-n', lambda: __import__('pandas').Series([0.25 * i for i in range(n)], index=list(range(n))[::-1])),
        ('pd-series-n+1', lambda: __import__('pandas').Series([1.0] * (n + 1))), ('pd-series-str-n', lambda: __import__('pandas').Series(['s'] * n)),
        ('pd-index-n', lambda: __import__('pandas').Index([1.5 * i for i in range(n)])), ('pd-column-n', lambda: __import__('pandas').DataFrame({'a': range(n), 'b': 2.0})['a']),
        ('pd-categorical-n', lambda: __import__('pandas').Categorical([float(i % 2) for i in range(n)])),
        # awkward arrays: strided and reversed views, big-endian, object dtype, masked
        ('array-n-strided', lambda: np.arange(2 * n, dtype=float)[::2]), ('array-n-reversed', lambda: np.arange(n, dtype=float)[::-1]),
        ('array-n-bigendian', lambda: np.arange(n).astype('>f8')), ('array-n-object', lambda: np.array([1.5] * n, dtype=object)),
        ('masked-n', lambda: np.ma.masked_array(np.arange(n, dtype=float), mask=[i % 2 for i in range(n)])),
        ('array-n-fortran-column', lambda: np.asfortranarray(np.arange(3 * n, dtype=float).reshape(n, 3))[:, 1]),
        ('own-series', lambda: None), ('array-n-readonly', lambda: np.broadcast_to(np.float64(3.0), (n,))),
    ]


OPS = ['add', 'attr', 'item', 'label', 'lslice', 'replace', 'values_arr', 'values_bad', 'values_misshapen', 'values_scalar', 'add_attr', 'newattr', 'strict']


LAST = {'array': None}      # the array most recently handed to the `values` setter (the caller keeps it)


def apply(c, op, optag, opval, target, n, span, extra):
    """Apply one operation; returns a description; raises whatever the container raises."""
    if op == 'add':
        if extra is None and len(str(target)) % 2:
            c.add_variable(target, opval)                 # the documented default left out ...
        else:
            c.add_variable(target, opval, dtype=extra)    # ... or spelled out (dtype=None)
    elif op == 'attr':
        setattr(c, target, opval)
    elif op == 'item':
        c[target] = opval
    elif op == 'label':
        c[target, extra] = opval
    elif op == 'lslice':
        c[target, extra[0]:extra[1]:extra[2]] = opval
    elif op == 'replace':
        c.replace_values(**{target: opval})
    elif op == 'values_arr':
        LAST['array'] = np.full(np.shape(c.values), 2.0)
        c.values = LAST['array']
    elif op == 'values_bad':
        sh = np.shape(c.values)
        c.values = np.full((sh[0], (sh[1] if len(sh) > 1 else n) + 1), 2.0)
    elif op == 'values_misshapen':
        # the right number of elements in the wrong arrangement: raveled, a column, transposed
        sh = np.shape(c.values)
        rows, cols = (sh[0], sh[1]) if len(sh) > 1 else (0, n)
        arr = np.arange(rows * cols, dtype=float) + 0.5
        how = ['ravel', 'column', 'transpose', 'row'][len(str(target or '')) % 4] if rows else 'ravel'
        c.values = arr if how == 'ravel' else (arr.reshape(-1, 1) if how == 'column' else (arr.reshape(cols, rows) if how == 'transpose' else arr.reshape(1, -1)))
    elif op == 'values_scalar':
        c.values = opval if np.ndim(opval) == 0 and opval is not None and not isinstance(opval, str) else 1
    elif op == 'add_attr':
        c.add_attribute(target, opval)
    elif op == 'newattr':
        setattr(c, target, opval)
    elif op == 'strict':
        c.strict = not c.strict


def make(kind, n, strict):
    import fsic
    from fsic.core import VectorContainer
    # years, or a window around zero (0 is a label like any other, and not at either end of the span)
    span = list(range(2000, 2000 + n)) if (n + len(kind)) % 3 else list(range(-2, n - 2))
    # the object's own span: that list, or a NumPy array of the same labels (which has neither .index() nor .get_loc())
    cspan = np.array(span) if (n + len(kind)) % 2 and n else (range(span[0], span[-1] + 1) if (n + len(kind)) % 4 == 0 and n else span)
    if kind == 'container':
        c = monitored(VectorContainer)(cspan, strict=strict)
        dtypes = {}
    elif kind == 'model-bare':
        # a model class that declares no variables at all: values is an empty stack and size 0 until the first add_variable
        class M0(fsic.BaseModel):
            pass
        c = monitored(M0)(cspan, strict=strict)
        dtypes = {k: c.__dict__['_' + k].dtype for k in c.index}
    elif kind == 'linker-bare':
        class S0(fsic.BaseModel):
            ENDOGENOUS = ['Y']
            NAMES = ENDOGENOUS

        class L0(fsic.BaseLinker):
            pass
        c = monitored(L0)({'s': S0(cspan)})
        if strict:
            c.strict = True
        dtypes = {k: c.__dict__['_' + k].dtype for k in c.index}
    elif kind == 'model-traced':
        # a model that keeps a record series of its own in `index` (the tracer's, one object per period): not a variable, so
        # neither a row of `values` nor counted by `size`
        from fsic.extensions import TracerMixin

        class MT(TracerMixin, fsic.BaseModel):
            ENDOGENOUS = ['A']
            EXOGENOUS = ['B']
            NAMES = ENDOGENOUS + EXOGENOUS
        c = monitored(MT)(cspan, strict=strict)
        dtypes = {k: c.__dict__['_' + k].dtype for k in c.index}
    elif kind == 'linker-traced':
        from fsic.extensions import TracerMixin

        class ST(TracerMixin, fsic.BaseModel):
            ENDOGENOUS = ['Y']
            NAMES = ENDOGENOUS

        class LT(fsic.BaseLinker):
            ENDOGENOUS = ['A']
            EXOGENOUS = ['B']
            NAMES = ENDOGENOUS + EXOGENOUS
        c = monitored(LT)({'s': ST(cspan)})
        if strict:
            c.strict = True
        dtypes = {k: c.__dict__['_' + k].dtype for k in c.index}
    elif kind == 'model':
        class M(fsic.BaseModel):
            ENDOGENOUS = ['A']
            EXOGENOUS = ['B']
            NAMES = ENDOGENOUS + EXOGENOUS
        c = monitored(M)(cspan, strict=strict)
        dtypes = {k: c.__dict__['_' + k].dtype for k in c.index}
    else:
        class S(fsic.BaseModel):
            ENDOGENOUS = ['Y']
            NAMES = ENDOGENOUS

        class Lk(fsic.BaseLinker):
            ENDOGENOUS = ['A']
            EXOGENOUS = ['B']
            NAMES = ENDOGENOUS + EXOGENOUS
        c = monitored(Lk)({'s': S(cspan)})
        if strict:
            c.strict = True
        dtypes = {k: c.__dict__['_' + k].dtype for k in c.index}
    return c, span, dtypes


def step(ctx, c, twin, dtypes, hist, kind, n, span, op, optag, opval_factory, target, extra):
    desc = [op, optag, target, repr(extra)]
    before = snap(c)
    try:
        before_values_shape = tuple(np.shape(c.values))
    except Exception:
        before_values_shape = ()
    strict_now = bool(c.strict)
    outcome = 'ok'
    _factory = opval_factory

    def opval_factory(obj=None):   # noqa: F811 - the operand for `obj` (the object under test by default)
        if optag == 'own-series':
            # the live series of another variable of the same object, passed as the value of a *variable* assignment
            # (never stored as a plain attribute: that would make the harness itself hold two names for one array)
            o = c if obj is None else obj
            others = [k for k in o.__dict__['index'] if k != target]
            if op not in ('attr', 'item', 'replace', 'label', 'lslice') or not others:
                return np.arange(n, dtype=float)
            return o.__dict__['_' + others[0]]
        return _factory()
    operand = opval_factory()
    plain_twin = None
    if optag in PLAIN_EQUIVALENT and op in ('attr', 'item', 'replace', 'label', 'lslice', 'add'):
        # a NumPy / subclass spelling of a scalar is that scalar: the same operation with the plain Python value on a copy taken now
        try:
            plain_twin = c.copy()
        except Exception:
            plain_twin = None
    try:
        apply(c, op, optag, operand, target, n, span, extra)
        if op == 'add':
            dtypes[target] = c.__dict__['_' + target].dtype
            if extra is None and kind != 'container' and dtypes[target] != np.dtype(c.__dict__['dtype']):
                # models and linkers: without a dtype of its own (left out, or None) the new variable takes the object's dtype
                hist.append(desc + ['ok'])
                ctx.violation('series-dtype', f'{kind}: add_variable({target!r}, {optag}{"" if len(str(target)) % 2 else ", dtype=None"}) on an object of dtype {c.__dict__["dtype"]} created a series of dtype {dtypes[target]}', {'kind': kind, 'n': n, 'history': hist})
                return False
            if extra is not None and np.dtype(extra).itemsize > 0 and dtypes[target] != np.dtype(extra):
                # an explicit, fully specified dtype (fixed width) is the dtype the variable is created with
                hist.append(desc + ['ok'])
                ctx.violation('series-dtype', f'{kind}: add_variable({target!r}, ..., dtype={extra!r}) created a series of dtype {dtypes[target]}', {'kind': kind, 'n': n, 'history': hist})
                return False
    except InvariantBroken as e:
        hist.append(desc + ['InvariantBroken'])
        ctx.violation('series-shape', f'{kind}: icontract invariant broken by {desc}: {e}', {'kind': kind, 'n': n, 'history': hist})
        return False
    except Exception as e:
        outcome = type(e).__name__
        msg = str(e)
    hist.append(desc + [outcome])
    if outcome == 'ok' and op in ('add', 'attr', 'item', 'replace') and isinstance(operand, np.ndarray) and operand.size and target in c.__dict__['index']:
        # the stored series is the object's own: what the caller later does to the array it passed in does not reach it,
        # and writing to the variable does not reach the array (or the other variable) it was assigned from
        ctx.count('aliasing_probes')
        probe = snap(c)
        if optag != 'own-series' and operand.flags.writeable:
            operand.flat[0] = (not operand.flat[0]) if operand.dtype.kind == 'b' else (operand.flat[0] + 1 if operand.dtype.kind in 'fiu' else 'Q')
            if not series_same(probe, snap(c)):
                ctx.violation('series-aliases-operand', f'{kind}: after {desc}, changing the caller\'s array in place changed the stored series', {'kind': kind, 'n': n, 'history': hist})
                return False
        image = np.array(operand, copy=True)
        stored = c.__dict__['_' + target]
        orig = stored[0].copy() if hasattr(stored[0], 'copy') else stored[0]
        try:
            c[target, span[0]] = (not stored[0]) if stored.dtype.kind == 'b' else (stored[0] + 1 if stored.dtype.kind in 'fiu' else 'Q')
        except Exception:
            pass
        aliased = repr(np.asarray(operand).tolist()) != repr(image.tolist())
        try:
            c.__dict__['_' + target][0] = orig      # undo the probe's write
        except Exception:
            pass
        if aliased:
            ctx.violation('series-aliases-operand', f'{kind}: after {desc}, a label write to {target!r} changed the array it was assigned from', {'kind': kind, 'n': n, 'history': hist})
            return False
    if op == 'values_arr' and outcome == 'ok' and LAST['array'] is not None and LAST['array'].size:
        # what the caller does to the array afterwards stays the caller's business
        ctx.count('aliasing_probes')
        probe = snap(c)
        LAST['array'][...] = -321.0
        if not series_same(probe, snap(c)):
            ctx.violation('series-aliases-operand', f'{kind}: after values = <array>, changing that array in place changed the stored series', {'kind': kind, 'n': n, 'history': hist})
            return False
    ctx.count('operations_applied')
    ctx.seen('op_outcomes', f'{op}:{outcome}')
    case = {'kind': kind, 'n': n, 'history': hist}
    after = snap(c)
    if plain_twin is not None:
        p_out = 'ok'
        try:
            apply(plain_twin, op, optag, PLAIN_EQUIVALENT[optag](), target, n, span, extra)
        except Exception as e:
            p_out = type(e).__name__
        ctx.count('scalar_spellings_compared')
        if p_out != outcome or not series_same(after, snap(plain_twin)):
            ctx.violation('series-shape', f'{kind}: {desc} -> {outcome}; the same operation with the plain Python value {PLAIN_EQUIVALENT[optag]()!r} -> {p_out}; series equal: {series_same(after, snap(plain_twin))}', case)
            return False
    if op == 'add_attr' and target in before['index']:
        # the name of an existing variable is taken: a new attribute of that name is a duplicate
        ctx.count('duplicate_name_attributes')
        if outcome == 'ok' or not series_same(before, after) or after['keys'] != before['keys']:
            ctx.violation('failed-assignment-mutates', f'{kind}: add_attribute({target!r}, ...) although {target!r} is a variable -> {outcome}; series changed: {not series_same(before, after)}; '
                                                       f'instance entries {sorted(set(after["keys"]) ^ set(before["keys"]))}', case)
            return False
    if op == 'label' and target in before['index'] and extra not in span:
        # a label that is not in the span addresses no period: nothing to assign to
        ctx.count('absent_label_assignments')
        if outcome == 'ok' or not series_same(before, after):
            ctx.violation('failed-assignment-mutates', f'{kind}: {desc}: the label is not in the span {span[:3]}..{span[-1:]} -> {outcome}; series changed: {not series_same(before, after)}', case)
            return False
    if op == 'lslice' and target in before['index'] and isinstance(operand, (list, tuple, range, np.ndarray)) and np.ndim(operand) == 1 and len(operand) >= 2:
        # a label slice addresses the periods from its first to its last label inclusive (open ends: the span's ends) - falsy labels
        # such as 0 included; a sequence of another length cannot fit it
        a_, b_, st_ = extra
        if (a_ is None or a_ in span) and (b_ is None or b_ in span):
            pa, pb = (0 if a_ is None else span.index(a_)), (n - 1 if b_ is None else span.index(b_))
            addressed = list(range(pa, pb + 1, st_ or 1)) if pa <= pb else []
            if len(addressed) >= 2 and len(operand) != len(addressed):
                ctx.count('misfit_label_slice_assignments')
                if outcome == 'ok' or not series_same(before, after):
                    ctx.violation('failed-assignment-mutates', f'{kind}: {desc}: {len(operand)} values for the {len(addressed)} periods {addressed} the label slice addresses -> {outcome}; series changed: {not series_same(before, after)}', case)
                    return False
    if op in ('item', 'replace', 'label', 'lslice') and target not in before['index']:
        # an unknown name - including the name of a non-variable attribute, property or class attribute - must be refused by the
        # variable-assignment paths, not turned into something else
        ctx.count('unknown_name_assignments')
        if outcome == 'ok' or after['attrs'] != before['attrs'] or after['keys'] != before['keys'] or not series_same(before, after) or \
                any(after[k] != before[k] for k in ('span', 'class_names', 'plain', 'index')):
            ctx.violation('unknown-name-accepted', f'{kind}: {desc} for a name that is not a variable -> {outcome}; attributes {before["attrs"]} -> {after["attrs"]}', case)
            return False
    # an array of the right length for a known variable "fits": if it is refused, it is for its *values* (text into numbers, NaN into
    # integers), which NumPy discovers element by element
    text_into_numeric = isinstance(operand, np.ndarray) and operand.shape == (n,) and target in before['index'] and \
        (operand.dtype.kind in 'USO' or (operand.dtype.kind == 'f' and before['series'][target][1].kind in 'iub'))
    if op in ('values_bad', 'values_misshapen'):
        sh = before_values_shape
        wrong = op == 'values_bad' or (len(sh) > 1 and sh[0] * sh[1] > 0 and not (sh[0] == 1 and sh[1] == 1) and not (op == 'values_misshapen' and sh[0] == 1 and False))
        if len(sh) > 1 and sh[0] >= 1 and (op == 'values_bad' or sh[0] * sh[1] > 1):
            ctx.count('misshapen_values_assignments')
            # (a 1 x n container given n raveled numbers, or a row, is the right shape after all)
            fits = op == 'values_misshapen' and sh[0] == 1 and len(str(target or '')) % 4 in (0, 3)
            if not fits and (outcome == 'ok' or not series_same(before, after)):
                ctx.violation('values-misshapen-accepted', f'{kind}: values = <array of the wrong shape for {sh}> ({desc}) -> {outcome}; series changed: {not series_same(before, after)}', case)
                return False
    if outcome != 'ok' and text_into_numeric:
        ctx.count('failed_value_conversions_not_asserted')     # see ASSUMPTIONS: not a "cannot fit" category of the statement
    elif outcome != 'ok' and op in ('add', 'attr', 'item', 'label', 'lslice', 'replace'):
        ctx.count('failed_assignments_checked')
        if not series_same(before, after):
            ctx.violation('failed-assignment-mutates', f'{kind}: {desc} raised {outcome} but changed the series', case)
            return False
    # strict clauses
    # "existing name" is decided on what is observable (the instance carries it), not on the container's own bookkeeping
    exists_before = target in before['attrs'] or target in before['keys']
    if strict_now and op == 'newattr' and isinstance(target, str) and target.startswith('_') and target[1:] in before['index']:
        ctx.count('strict_private_slot_assignments')
        if outcome != 'AttributeError' or not series_same(before, after) or after['attrs'] != before['attrs']:
            ctx.violation('strict-new-attribute', f'{kind}: with strict=True, setting attribute {target!r} (the storage slot of variable {target[1:]!r}, not a variable or attribute of the object) -> {outcome}; '
                                                  f'attributes {before["attrs"]} -> {after["attrs"]}; series unchanged: {series_same(before, after)}', case)
            return False
        # (the suggestion is drawn from the variables: for models and linkers that leaves out the solution records)
        if target[1:] in (before['index'] if kind == 'container' else list(c.__dict__.get('names', before['index']))) and f"'{target[1:]}'" not in msg:
            ctx.violation('strict-near-miss-not-reported', f'{kind}: refusal of {target!r} does not suggest the variable {target[1:]!r}: {msg!r}', case)
            return False
        return check_invariant(ctx, c, dtypes, hist, kind)
    if strict_now and op == 'newattr' and not exists_before and target not in before['index']:
        if outcome == 'ok' or after['attrs'] != before['attrs'] or after['keys'] != before['keys']:
            ctx.violation('strict-new-attribute', f'{kind}: with strict=True, setting new attribute {target!r} -> {outcome}; attributes {before["attrs"]} -> {after["attrs"]}', case)
            return False
        if outcome != 'AttributeError':
            ctx.violation('strict-new-attribute', f'{kind}: strict refusal raised {outcome}, expected AttributeError', case)
            return False
        candidates = before['index'] if kind == 'container' else list(c.__dict__.get('names', before['index']))
        near = [v for v in candidates if v.lower() == target.lower() or (target.lower().startswith(v.lower()) and len(target) == len(v) + 1)]
        if near and not isinstance(getattr(type(c), target, None), property) and not any(f"'{v}'" in msg for v in near):
            ctx.violation('strict-near-miss-not-reported', f'{kind}: refusal message does not suggest the closest variable: {msg!r}', case)
            return False
    if strict_now and op == 'newattr' and exists_before and twin is not None and (target in snap(twin)['attrs'] or target in snap(twin)['keys']):
        t_out = 'ok'
        try:
            apply(twin, op, optag, opval_factory(twin), target, n, span, extra)
        except Exception as e:
            t_out = type(e).__name__
        ctx.count('strict_twin_comparisons')
        if t_out != outcome or (outcome == 'ok' and repr(getattr(c, target, None)) != repr(getattr(twin, target, None))):
            ctx.violation('strict-blocks-update', f'{kind}: updating existing attribute {target!r} with strict=True -> {outcome}, non-strict twin -> {t_out}', case)
            return False
        return check_invariant(ctx, c, dtypes, hist, kind)
    if strict_now and op == 'newattr' and exists_before and twin is None:
        # no twin (the object was not born strict): updating a name the instance already carries keeps working
        ctx.count('strict_existing_updates_checked')
        if outcome != 'ok':
            ctx.violation('strict-blocks-update', f'{kind}: updating existing attribute {target!r} with strict=True -> {outcome} ({msg})', case)
            return False
    if twin is not None:
        # the same operation on a never-strict twin: existing-name updates and add_variable must behave identically
        tb = snap(twin)
        t_out = 'ok'
        try:
            apply(twin, op if op != 'strict' else 'noop', optag, opval_factory(twin), target, n, span, extra)
        except Exception as e:
            t_out = type(e).__name__
        if op not in ('newattr', 'strict', 'add_attr'):
            ctx.count('strict_twin_comparisons')
            if t_out != outcome or not series_same(after, snap(twin)):
                ctx.violation('strict-blocks-update', f'{kind}: {desc} with strict={strict_now} -> {outcome}, on the non-strict twin -> {t_out}; series equal: {series_same(after, snap(twin))}', case)
                return False
        elif op == 'newattr' and not strict_now:
            pass
    return check_invariant(ctx, c, dtypes, hist, kind)


def choose(rng, c, n, span, op):
    names = list(c.__dict__['index'])
    attrs = [a for a in c.__dict__['_attributes'] if not a.startswith('_')]
    if op == 'add':
        return rng.choice(['A', 'B', 'C', 'D', 'lags']), rng.choice([None, None, float, int, bool, str, '<U1', '<U3', 'U8', np.float32, np.int16, np.uint8])
    if op == 'attr':
        return (rng.choice(names) if names else 'A'), None
    not_variables = ['ZZ', 'index', 'span', 'names', 'NAMES', 'values', 'memo', 'strict', 'size', 'note', 'lags', 'copy']
    # names of the object's own private entries without their underscore, class-level settings and members: not variables either
    private = ['strict', 'attributes', 'LAGS', 'LEADS', 'dtype', 'span', 'index', 'submodels', 'check']
    if op == 'replace':
        return (rng.choice(names + ['ZZ', 'Xx'] + private[:rng.choice([0, 0, 9])]) if names else rng.choice(['ZZ'] + private)), None
    if op == 'item':
        return (rng.choice(names + ['ZZ'] + private[:rng.choice([0, 0, 9])]) if names else rng.choice(['ZZ'] + private)), None
    if op == 'label':
        return (rng.choice(names + not_variables[:rng.choice([0, 0, 12])]) if names else 'A'), rng.choice(span + [1999, span[0] - 1, span[0] - 2, span[-1] + 1] if span else [1999])
    if op == 'lslice':
        return (rng.choice(names + not_variables[:rng.choice([0, 0, 12])]) if names else 'A'), (rng.choice(span + [None]), rng.choice(span + [None]), rng.choice([None, 1, 2]))
    if op == 'add_attr':
        return rng.choice(['note', 'A', 'span', 'memo'] + names[:2]), None
    if op == 'newattr':
        if c.__dict__.get('_strict') and names and rng.random() < 0.2:
            # under strict, the name of a variable's private storage slot: to the user a new non-variable attribute like any other
            # (refused, the variable suggested); not tried without strict, where the same assignment legitimately lands in __dict__
            return '_' + rng.choice(names), None
        return rng.choice(['a', 'Aa', 'note2', 'b', 'Bb', 'c_', 'note', 'memo', 'note', 'memo', 'copy', 'solve', 'LAGS', 'NAMES', 'eval', 'size', 'reindex', 'to_dataframe', 'ENDOGENOUS']), None
    return None, None


def history(ctx, kind, n, strict, plan, rng):
    """plan: list of (op, operand index) or None for random choices."""
    c, span, dtypes = make(kind, n, strict)
    twin = None
    if strict:
        twin, _, _ = make(kind, n, False)
    ops_cat = operands(n)
    hist = []
    for op, oi, *forced in plan:
        optag, fac = ops_cat[oi]
        target, extra = choose(rng, c, n, span, op)
        if forced:
            target = forced[0]
        if op in ('attr', 'item', 'label', 'lslice', 'replace') and not c.__dict__['index']:
            continue
        if not step(ctx, c, twin, dtypes, hist, kind, n, span, op, optag, fac, target, extra):
            return hist
    return hist


def run_shard(ctx):
    rng = ctx.rng('c09')
    idx = 0
    ncat = len(operands(3))
    value_ops = ['add', 'attr', 'item', 'label', 'lslice', 'replace', 'add_attr', 'newattr']
    plain_ops = ['values_arr', 'values_bad', 'values_misshapen', 'values_scalar', 'strict']
    single = [(op, oi) for op in value_ops for oi in range(ncat)] + [(op, 0) for op in plain_ops]
    # exhaustive: length 1 after a fixed prefix; length 2 (quick: sampled stride)
    for kind in ('container', 'model', 'linker'):
        for n in (1, 2, 3):
            for strict in (False, True):
                prefix = [('add', 5), ('add', 6)] if kind == 'container' else []
                for s1 in single:
                    idx += 1
                    if ctx.mine(idx):
                        plan = prefix + [s1]
                        h = history(ctx, kind, n, strict, plan, rng)
                        ctx.evaluation((kind, n, strict, h), nontrivial=bool(h))
                stride = ctx.pick(23, 3)
                for j, (s1, s2) in enumerate(itertools.product(single, single)):
                    if j % stride != (ctx.seed % stride):
                        continue
                    idx += 1
                    if ctx.mine(idx):
                        plan = prefix + [s1, s2]
                        h = history(ctx, kind, n, strict, plan, rng)
                        ctx.evaluation((kind, n, strict, h), nontrivial=bool(h), sample={'kind': kind, 'n': n, 'strict': strict, 'history': h})
    # a name created one way while strict is off, strict switched on, the name updated / re-declared (every creation route x operand)
    for kind in ('container', 'model', 'linker'):
        for create in ('newattr', 'add_attr'):
            for name in ('note', 'memo', 'a', 'Bb'):
                for oi in range(0, ncat, 3):
                    idx += 1
                    if not ctx.mine(idx):
                        continue
                    for born_strict in (False, True):
                        plan = ([('strict', 0)] if born_strict else []) + [(create, oi, name), ('strict', 0), ('newattr', (oi + 1) % ncat, name), ('add_attr', oi, name),
                                                                          ('strict', 0), ('newattr', oi, name)]
                        h = history(ctx, kind, 2, born_strict, plan, rng)
                        ctx.count('strict_sandwich_histories')
                        ctx.evaluation((kind, 2, born_strict, h), nontrivial=bool(h))
    # classes with a record series of their own (the tracer's): the same single operations
    for kind in ('model-traced', 'linker-traced'):
        for n in (1, 3):
            for strict in (False, True):
                for s1 in single:
                    idx += 1
                    if ctx.mine(idx):
                        h = history(ctx, kind, n, strict, [s1], rng)
                        ctx.count('traced_histories')
                        ctx.evaluation((kind, n, strict, h), nontrivial=bool(h))
    # classes that declare no variables: the invariant (values / size included) from the very first operation
    for kind in ('model-bare', 'linker-bare'):
        for n in (1, 2):
            for strict in (False, True):
                for s1 in single:
                    idx += 1
                    if ctx.mine(idx):
                        for plan in ([s1], [('newattr', 0), s1], [s1, ('add', 5), s1]):
                            h = history(ctx, kind, n, strict, plan, rng)
                            ctx.count('bare_class_histories')
                            ctx.evaluation((kind, n, strict, h), nontrivial=bool(h))
    # random long histories
    count = ctx.pick(150, 6000)
    for i in range(count):
        kind = rng.choice(['container', 'container', 'model', 'linker', 'model-bare', 'linker-bare'])
        n = rng.choice([1, 2, 3, 4])
        strict = rng.random() < 0.4
        plan = [(rng.choice(OPS), rng.randrange(ncat)) for _ in range(rng.randint(1, 12))]
        if kind == 'container':
            plan = [('add', rng.randrange(ncat))] + plan
        h = history(ctx, kind, n, strict, plan, rng)
        ctx.evaluation((kind, n, strict, h), nontrivial=bool(h), sample={'kind': kind, 'n': n, 'strict': strict, 'history': h})
    ctx.count('icontract_invariant_evaluations', _ICON['evaluations'])


def replay(ctx, case):
    ctx.inconclusive_because('histories are re-generated from the seed; re-run the shard with the same VERIF_SEED (the witness history is in the replay file)')
