"""C10 - label-based access addresses exactly the labelled periods.

Monitor: every series holds its own position numbers (unique ids), so a read
*identifies* the cells it addressed; writes are identified by a snapshot diff.  The
reference is the tiny label model of fsicverif/spans.py (first position whose label
equals the key; inclusive label slices; positive steps)."""
import itertools

import numpy as np

from . import spans

PROPERTY = 'C10'
LEVEL = 'exploration'
RULE = ('every span type of the catalogue at lengths 1..5 (quick) / 1..6 x 2 origins (thorough); every label spelling of every '
        'position, every absent label, every (start, stop, step) triple over labels/open ends/group labels with step in '
        '{None,1,2,3}, for get and set; plus write-through-one-path / read-through-every-other-path over attribute, name key, '
        'position, label and label slice. non-trivial = distinct (span kind, n, operation, key) tuple')
ASSUMPTIONS = ['labels are unique within a span; label equality is Python ==', 'only positive steps are specified']
ANCHORS = [('fsic/core/containers.py', 'VectorContainer._locate_period_in_span'), ('fsic/core/containers.py', 'VectorContainer._locate_period_in_span_fallback'),
           ('fsic/core/containers.py', 'VectorContainer._resolve_period_slice'), ('fsic/core/containers.py', 'VectorContainer.__getitem__'),
           ('fsic/core/containers.py', 'VectorContainer.__setitem__')]
REQUIRED_COUNTERS = {'label_reads': 300, 'label_writes': 300, 'slice_reads': 1000, 'slice_writes': 1000, 'absent_labels': 50, 'path_round_trips': 200}
EXHAUSTIVE = {'quick': True, 'thorough': True}
LEVEL_TEXT = ('Exhaustive (within the length bound) monitor of label and label-slice get/set on containers whose cells carry unique '
              'ids, against the reference label model, for every supported span type.')
LEVEL_NOTE = 'Trusted: fsicverif/spans.py (label -> position model, 20 lines). Exhaustive up to span length 5/6 only.'
TECHNIQUE = 'unique-id cells + reference label model + snapshot diff (runtime monitor)'


def nshards(tier):
    return 16


HISTORY = {'other': None}


def make(spec, cls=None):
    """A container over spec's span whose cells hold their own positions.  With a 'history', the
    container is first built over a *shifted* span of the same type, every label is looked up (so that
    any internal bookkeeping is populated), and it is then reindexed to the span under test."""
    from fsic.core import VectorContainer
    other = HISTORY['other']
    if other == 'as-list':
        # built over a plain list of the very same labels, every label looked up, then reindexed onto the typed span: the result
        # addresses labels as its *new* span does
        c = (cls or VectorContainer)(list(spec.make()))
        c.add_variable('X', np.arange(spec.n, dtype=float) - 50)
        c.add_variable('K', np.arange(spec.n, dtype=np.int64) - 70)
        for lab in list(c.span):
            c['X', lab]
            c['K', lab:lab]
        c = c.reindex(spec.make())
        c.X = [float(i) for i in range(spec.n)]
        c.K = [100 + i for i in range(spec.n)]
        return c
    if other is not None:
        c = (cls or VectorContainer)(other.make())
        c.add_variable('X', np.arange(other.n, dtype=float) - 50)
        c.add_variable('K', np.arange(other.n, dtype=np.int64) - 70)
        for i in range(other.n):
            for lab in other.labels[i]:
                if lab is not None:
                    c['X', lab]
                    c['K', lab:lab]
        for lab in list(spec.absent) + [l[0] for l in spec.labels]:
            try:
                c['X', lab]
            except Exception:
                pass
        c = c.reindex(spec.make())
        c.X = [float(i) for i in range(spec.n)]
        c.K = [100 + i for i in range(spec.n)]
        return c
    c = (cls or VectorContainer)(spec.make())
    c.add_variable('X', np.arange(spec.n, dtype=float))
    c.add_variable('K', np.arange(100, 100 + spec.n, dtype=np.int64))
    # variables whose names ordinary attribute lookup would find something else under: the private storage of X, a property
    c.add_variable('_X', np.arange(200, 200 + spec.n, dtype=float))
    c.add_variable('size', np.arange(300, 300 + spec.n, dtype=float))
    return c


def state(c):
    return {k: np.array(c.__dict__['_' + k]).copy() for k in c.__dict__['index']}


def changed(a, b):
    return {(k, i) for k in a for i in range(len(a[k])) if a[k][i] != b[k][i]}


def bounds(spec):
    """All label spellings usable as slice bounds: (label or None, first position, last position)."""
    out = [(None, None, None)]
    for i in range(spec.n):
        for lab in spec.labels[i]:
            if lab is not None:
                out.append((lab, i, i))
    for lab, (a, b) in spec.group_labels.items():
        out.append((lab, a, b))
    return out


def check_spec(ctx, spec, cls=None):
    n = spec.n
    kind = spec.kind
    # ---- single labels ------------------------------------------------------------------
    for i in range(n):
        for lab in spec.labels[i]:
            case = {'span_kind': kind, 'n': n, 'op': 'get', 'label': repr(lab)}
            ctx.evaluation((kind, n, 'get', repr(lab)), sample=case)
            c = make(spec, cls)
            try:
                got = (c['X', lab], c['K', lab])
            except Exception as e:
                ctx.violation('label-get', f'{kind}: obj[name, {lab!r}] raised {type(e).__name__}: {e}; the label is at position {i}', case)
                continue
            ctx.count('label_reads')
            if not (np.ndim(got[0]) == 0 and got[0] == i and got[1] == 100 + i):
                ctx.violation('label-get', f'{kind}: obj[name, {lab!r}] returned {got}; the label is at position {i}', case)
            before = state(c)
            c['X', lab] = -7.5
            ctx.count('label_writes')
            ch = changed(before, state(c))
            if ch != {('X', i)} or c.X[i] != -7.5:
                ctx.violation('label-set', f'{kind}: obj["X", {lab!r}] = v changed cells {sorted(ch)}, expected only position {i}', dict(case, op='set'))
    # variables named like something else the object has ('_X' is where X is stored, 'size' is a property): a label write goes to them
    probe = make(spec, cls)
    for name, base_ in (('_X', 200), ('size', 300)):
        if name not in probe.__dict__['index']:
            continue
        for i in range(n):
            lab = spec.labels[i][0]
            if lab is None:
                continue
            c = make(spec, cls)
            case = {'span_kind': kind, 'n': n, 'op': 'set', 'label': repr(lab), 'variable': name}
            ctx.evaluation((kind, n, 'set', name, repr(lab)), sample=case)
            before = state(c)
            try:
                got0 = c[name, lab]
                c[name, lab] = -9.5
                c[name, lab:lab] = -9.5
                got = c[name, lab]
            except Exception as e:
                ctx.violation('label-set', f'{kind}: obj[{name!r}, {lab!r}] raised {type(e).__name__}: {e}', case)
                continue
            ctx.count('label_writes')
            ch = changed(before, state(c))
            if ch != {(name, i)} or got != -9.5 or got0 != base_ + i:
                ctx.violation('label-set', f'{kind}: obj[{name!r}, {lab!r}] read {got0!r} (expected {base_ + i}); = v changed cells {sorted(ch)} and reads back {got!r}; expected only position {i} of {name!r}', case)
    # models: the solution-record variables (status, iterations) are addressed by label like any other variable
    probe = make(spec, cls)
    if 'iterations' in probe.__dict__['index']:
        for i in range(n):
            lab = spec.labels[i][-1]
            if lab is None:
                continue
            for name, v in (('iterations', 5), ('status', 'Q')):
                c = make(spec, cls)
                case = {'span_kind': kind, 'n': n, 'op': 'set', 'label': repr(lab), 'variable': name}
                ctx.evaluation((kind, n, 'set', name, repr(lab)), sample=case)
                before = state(c)
                try:
                    c[name, lab] = v
                    c[name, lab:lab] = v
                    got = c[name, lab]
                except Exception as e:
                    ctx.violation('label-set', f'{kind}: obj[{name!r}, {lab!r}] = {v!r} raised {type(e).__name__}: {e}', case)
                    continue
                ctx.count('label_writes')
                ch = changed(before, state(c))
                if ch != {(name, i)} or got != v:
                    ctx.violation('label-set', f'{kind}: obj[{name!r}, {lab!r}] = {v!r} changed cells {sorted(ch)} and reads back {got!r}; expected only position {i}', case)
    # group labels (pandas partial-string indexing) address the whole group
    for lab, (a, b) in spec.group_labels.items():
        c = make(spec, cls)
        case = {'span_kind': kind, 'n': n, 'op': 'get-group', 'label': repr(lab)}
        ctx.evaluation((kind, n, 'get-group', repr(lab)), sample=case)
        got = np.atleast_1d(c['X', lab])
        ctx.count('label_reads')
        if list(got) != list(range(a, b + 1)):
            ctx.violation('label-get', f'{kind}: obj["X", {lab!r}] returned positions {list(got)}, expected {list(range(a, b + 1))}', case)
    # ---- absent labels -------------------------------------------------------------------
    for lab in spec.absent:
        if lab is None:
            continue
        c = make(spec, cls)
        before = state(c)
        for op in ('get', 'set', 'slice-start', 'slice-stop'):
            case = {'span_kind': kind, 'n': n, 'op': op, 'label': repr(lab)}
            ctx.evaluation((kind, n, op, 'absent', repr(lab)), sample=case)
            ctx.count('absent_labels')
            try:
                if op == 'get':
                    r = c['X', lab]
                elif op == 'set':
                    c['X', lab] = 1.0
                    r = 'assigned'
                elif op == 'slice-start':
                    r = c['X', lab:]
                else:
                    r = c['X', :lab]
                ctx.violation('absent-label-accepted', f'{kind}: {op} with absent label {lab!r} did not raise (result {r!r})', case)
            except KeyError:
                pass
            except Exception as e:
                ctx.violation('absent-label-error-class', f'{kind}: {op} with absent label {lab!r} raised {type(e).__name__}: {e}', case)
            if changed(before, state(c)):
                ctx.violation('absent-label-aliases', f'{kind}: {op} with absent label {lab!r} changed {sorted(changed(before, state(c)))}', case)
                c = make(spec, cls)
                before = state(c)
    # ---- slices --------------------------------------------------------------------------
    bl = bounds(spec)
    for (la, a0, a1), (lb, b0, b1) in itertools.product(bl, bl):
        for step in (None, 1, 2, 3):
            first = 0 if la is None else a0
            last = n - 1 if lb is None else b1
            want = spans.slice_positions(n, first, last, step)
            key = slice(la, lb, step)
            case = {'span_kind': kind, 'n': n, 'op': 'get-slice', 'start': repr(la), 'stop': repr(lb), 'step': step}
            ctx.evaluation((kind, n, 'slice', repr(la), repr(lb), step), sample=case)
            c = make(spec, cls)
            try:
                got = list(c['X', key])
            except Exception as e:
                ctx.violation('slice-get', f'{kind}: obj["X", {la!r}:{lb!r}:{step}] raised {type(e).__name__}: {e}; expected positions {want}', case)
                continue
            ctx.count('slice_reads')
            if got != want:
                ctx.violation('slice-get', f'{kind}: obj["X", {la!r}:{lb!r}:{step}] addressed positions {got}, expected {want}', case)
                continue
            before = state(c)
            c['K', key] = -1
            ctx.count('slice_writes')
            ch = changed(before, state(c))
            if ch != {('K', i) for i in want}:
                ctx.violation('slice-set', f'{kind}: obj["K", {la!r}:{lb!r}:{step}] = v changed {sorted(ch)}, expected positions {want}', dict(case, op='set-slice'))
            if want:
                c['X', key] = np.array(want, dtype=float) + 0.5
                if [c.X[i] for i in want] != [w + 0.5 for w in want]:
                    ctx.violation('slice-set', f'{kind}: array assignment through the label slice stored {[c.X[i] for i in want]}', dict(case, op='set-slice-array'))
                # ... and a Python sequence with one value per addressed period (list, tuple, range)
                for seq in ([w + 0.25 for w in want], tuple(w + 0.75 for w in want), range(500, 500 + len(want))):
                    try:
                        c['X', key] = seq
                    except Exception as e:
                        ctx.violation('slice-set', f'{kind}: obj["X", {la!r}:{lb!r}:{step}] = <{type(seq).__name__} of {len(want)} values for the {len(want)} addressed periods> raised {type(e).__name__}: {e}', dict(case, op='set-slice-sequence'))
                        break
                    ctx.count('slice_writes')
                    if [c.X[i] for i in want] != [float(v) for v in seq]:
                        ctx.violation('slice-set', f'{kind}: {type(seq).__name__} assignment through the label slice stored {[c.X[i] for i in want]}, expected {list(seq)}', dict(case, op='set-slice-sequence'))
                        break
    # ---- write through one path, read through every other --------------------------------
    for i in range(n):
        lab = spec.labels[i][0]
        if lab is None:
            continue
        writers = {
            'attribute': lambda c, v: c.X.__setitem__(i, v),
            'name-key': lambda c, v: c['X'].__setitem__(i, v),
            'whole-series-attribute': lambda c, v: setattr(c, 'X', [v if j == i else c.X[j] for j in range(n)]),
            'whole-series-key': lambda c, v: c.__setitem__('X', [v if j == i else c.X[j] for j in range(n)]),
            'label': lambda c, v: c.__setitem__(('X', lab), v),
            'label-slice': lambda c, v: c.__setitem__(('X', slice(lab, lab)), v),
            'replace_values': lambda c, v: c.replace_values(X=[v if j == i else c.X[j] for j in range(n)]),
            # whole series given as a NumPy array of exactly the stored dtype, which the caller overwrites afterwards: what was
            # written stays written (the returned callable is run after the write and before the read-backs)
            'whole-series-attribute-ndarray': lambda c, v: _write_array(c, 'attr', v, i, n),
            'whole-series-key-ndarray': lambda c, v: _write_array(c, 'key', v, i, n),
            'replace_values-ndarray': lambda c, v: _write_array(c, 'replace', v, i, n),
        }
        readers = {
            'attribute': lambda c: c.X[i],
            'name-key': lambda c: c['X'][i],
            'label': lambda c: c['X', lab],
            'label-slice': lambda c: c['X', lab:lab][0],
            'values': lambda c: c.values[0][i],
            'getattr': lambda c: getattr(c, 'X')[i],
        }
        for wname, w in writers.items():
            c = make(spec, cls)
            v = 1000.25 + i
            case = {'span_kind': kind, 'n': n, 'op': 'round-trip', 'writer': wname, 'position': i}
            ctx.evaluation((kind, n, 'rt', wname, i), sample=case)
            before = state(c)
            try:
                after_write = w(c, v)
            except Exception as e:
                ctx.violation('path-write', f'{kind}: writing through {wname} raised {type(e).__name__}: {e}', case)
                continue
            if callable(after_write):
                after_write()
            ch = changed(before, state(c))
            if ch != {('X', i)}:
                ctx.violation('path-write', f'{kind}: writing position {i} through {wname} changed {sorted(ch)}', case)
                continue
            for rname, r in readers.items():
                ctx.count('path_round_trips')
                try:
                    got = r(c)
                except Exception as e:
                    ctx.violation('path-read', f'{kind}: reading through {rname} after writing through {wname} raised {type(e).__name__}: {e}', case)
                    continue
                if got != v:
                    ctx.violation('path-read', f'{kind}: wrote {v} at position {i} through {wname}, read {got!r} through {rname}', case)


def _write_array(c, how, v, i, n):
    arr = np.array([v if j == i else c.X[j] for j in range(n)], dtype=c.X.dtype)
    if how == 'attr':
        c.X = arr
    elif how == 'key':
        c['X'] = arr
    else:
        c.replace_values(X=arr)

    def poison():
        arr[...] = -999.0
    return poison


def all_specs(ctx):
    lens = ctx.pick([1, 2, 3, 4, 5, 6], [1, 2, 3, 4, 5, 6, 7])
    origins = ctx.pick([0], [0, 1, 3])
    out = []
    for n in lens:
        for o in origins:
            out.extend(spans.catalogue(n, origin=o))
    return out


def run_shard(ctx):
    import fsic
    long_spans(ctx)
    specs = all_specs(ctx)
    for si, spec in enumerate(specs):
        if not ctx.mine(si):
            continue
        ctx.seen('span_kinds', spec.kind)
        check_spec(ctx, spec)
        # the same checks on a container that reached this span through lookups on a shifted span + reindex()
        others = [o for o in spans.catalogue(spec.n + 1, origin=2) + spans.catalogue(max(spec.n - 1, 1), origin=-1) + spans.catalogue(spec.n, origin=1) + spans.catalogue(spec.n, origin=2) if o.kind == spec.kind]
        if others:
            HISTORY['other'] = others[(si + ctx.seed) % len(others)]
            try:
                ctx.count('reindexed_history_specs')
                check_spec(ctx, spec)
            finally:
                HISTORY['other'] = None
        if not isinstance(spec.make(), list):
            HISTORY['other'] = 'as-list'
            try:
                ctx.count('relisted_history_specs')
                check_spec(ctx, spec)
            finally:
                HISTORY['other'] = None
        if si % 3 == 0:
            # the same access paths on a model (ModelInterface overrides values/size, not item access)
            class M(fsic.BaseModel):
                pass
            check_spec(ctx, spec, cls=lambda span: _as_container(M, span))
        if si % 3 == 1 or 'pd.' in spec.kind:
            # ... and on a linker, whose span is taken over from its first submodel: labels are addressed as on that submodel
            class S(fsic.BaseModel):
                ENDOGENOUS = ['Y']
                NAMES = ENDOGENOUS
            ctx.count('linker_specs')
            check_spec(ctx, spec, cls=lambda span: fsic.BaseLinker({'s': S(span)}))
        if spec.kind in ('list[mixed hashables]', 'list[float]', 'range(-10**12,..)'):
            # the alias mixin only ever translates *names*: labels of any kind (None, tuples, floats, ...) pass through untouched
            from fsic.extensions import AliasMixin
            AC = type('AC', (AliasMixin, fsic.core.VectorContainer), {'ALIASES': {'XA': 'X', 'KA': 'K'}})
            AM = type('AM', (AliasMixin, fsic.BaseModel), {'ALIASES': {'XA': 'X', 'KA': 'K'}})
            ctx.count('alias_mixin_label_specs')
            check_spec(ctx, spec, cls=AC)
            check_spec(ctx, spec, cls=AM)
        if all(isinstance(l[0], str) for l in spec.labels):
            # classes with the alias mixin: aliases apply to *names* only - a period label that happens to
            # equal an alias (or an alias target) is still just a label
            from fsic.extensions import AliasMixin
            labs = [l[0] for l in spec.labels]
            aliases = {labs[0]: 'X', labs[-1]: 'K', 'XA': 'X', 'zz': 'X'}
            if len(labs) > 2:
                aliases[labs[1]] = labs[2]
            AC = type('AC', (AliasMixin, fsic.core.VectorContainer), {'ALIASES': dict(aliases)})
            AM = type('AM', (AliasMixin, fsic.BaseModel), {'ALIASES': dict(aliases)})
            ctx.count('alias_named_label_specs')
            check_spec(ctx, spec, cls=AC)
            check_spec(ctx, spec, cls=AM)


def long_spans(ctx):
    """Spans far longer than the catalogue's (1100 periods): positions around powers of two and thousands, by label and by label
    slice (inclusive, stepped), get and set - the same reference, so any shortcut taken only for long spans must agree with it."""
    import pandas as pd
    import fsic
    from fsic.core import VectorContainer
    n = 1100
    kinds = {
        'range': (lambda: range(1900, 1900 + n), lambda i: 1900 + i),
        'list[int]': (lambda: [3 * i + 7 for i in range(n)], lambda i: 3 * i + 7),
        'list[str]': (lambda: [f'p{i}' for i in range(n)], lambda i: f'p{i}'),
        'tuple[int]': (lambda: tuple(range(n, 0, -1)), lambda i: n - i),
        'ndarray[int64]': (lambda: np.arange(500, 500 + n), lambda i: 500 + i),
        'pd.Index[int]': (lambda: pd.Index(range(10, 10 + n)), lambda i: 10 + i),
        'pd.RangeIndex': (lambda: pd.RangeIndex(5, 5 + n), lambda i: 5 + i),
        'pd.PeriodIndex[Q]': (lambda: pd.period_range(start='1800Q1', periods=n, freq='Q'), lambda i: str(pd.period_range(start='1800Q1', periods=n, freq='Q')[i])),
        'pd.DatetimeIndex[D]': (lambda: pd.date_range(start='2000-01-01', periods=n, freq='D'), lambda i: pd.date_range(start='2000-01-01', periods=n, freq='D')[i].strftime('%Y-%m-%d')),
    }
    probes = [0, 1, 2, 31, 32, 33, 63, 64, 65, 127, 128, 255, 256, 257, 511, 512, 999, 1000, 1001, 1023, 1024, 1025, n - 2, n - 1]
    for k, (kind, (mk, lab)) in enumerate(kinds.items()):
        if not ctx.mine(k):
            continue
        for cls in (VectorContainer, fsic.BaseModel):
            c = cls(mk())
            c.add_variable('X', np.arange(n, dtype=float))
            ctx.seen('long_span_kinds', kind)
            for i in probes:
                case = {'span_kind': kind, 'n': n, 'op': 'long-span', 'position': i, 'class': cls.__name__}
                ctx.evaluation(('long', kind, cls.__name__, i), nontrivial=True, sample=case)
                try:
                    got = c['X', lab(i)]
                    before = state(c)
                    c['X', lab(i)] = -3.5
                    ch = changed(before, state(c))
                    c.X[i] = float(i)
                except Exception as e:
                    ctx.violation('label-get', f'{kind} of {n} periods: label {lab(i)!r} (position {i}) raised {type(e).__name__}: {e}', case)
                    break
                ctx.count('label_reads')
                ctx.count('label_writes')
                if not (np.ndim(got) == 0 and got == i):
                    ctx.violation('label-get', f'{kind} of {n} periods: obj["X", {lab(i)!r}] returned {got!r}; the label is at position {i}', case)
                    break
                if ch != {('X', i)}:
                    ctx.violation('label-set', f'{kind} of {n} periods: obj["X", {lab(i)!r}] = v changed cells {sorted(ch)[:6]}, expected only position {i}', case)
                    break
            else:
                for i, j in zip(probes, probes[3:] + probes[:3]):
                    for step in (None, 1, 7, 64):
                        case = {'span_kind': kind, 'n': n, 'op': 'long-span-slice', 'from': i, 'to': j, 'step': step, 'class': cls.__name__}
                        ctx.evaluation(('long-slice', kind, cls.__name__, i, j, step), nontrivial=True, sample=case)
                        want = list(range(i, j + 1, step or 1)) if i <= j else []
                        try:
                            got = c['X', lab(i):lab(j):step]
                        except Exception as e:
                            ctx.violation('slice-get', f'{kind} of {n} periods: obj["X", {lab(i)!r}:{lab(j)!r}:{step}] raised {type(e).__name__}: {e}', case)
                            continue
                        ctx.count('slice_reads')
                        if [int(x) for x in got] != want:
                            ctx.violation('slice-get', f'{kind} of {n} periods: obj["X", {lab(i)!r}:{lab(j)!r}:{step}] selected {[int(x) for x in got][:6]}... ({len(got)} cells); '
                                                       f'inclusive label slicing selects {want[:6]}... ({len(want)} cells)', case)


def _as_container(M, span):
    m = M(span)
    return m


def replay(ctx, case):
    for spec in spans.catalogue(case['n'], origin=0) + spans.catalogue(case['n'], origin=1) + spans.catalogue(case['n'], origin=3):
        if spec.kind == case['span_kind']:
            ctx.evaluation(case, nontrivial=True)
            check_spec(ctx, spec)
            return
    ctx.inconclusive_because('span kind not found')
