"""C11 - copies and sibling instances share no mutable state.

Monitor: full snapshots of the *other* side and of the class before/after every
mutation applied to one side of a (copy, original) or (sibling, sibling) pair, over
generated mutation histories with the copy taken at any point; plus an identity sweep
(id() of every reachable mutable object, np.shares_memory for every pair of arrays) whose
hits are reported directly."""
import copy
import warnings

import numpy as np

from . import snap

PROPERTY = 'C11'
LEVEL = 'exploration'
RULE = ('object kinds {VectorContainer, parser-built model, scripted model, linker with nested submodels, Alias/Tracer/PandasIndex '
        'mixin combinations} x copy routes {copy(), copy.copy, copy.deepcopy, sibling instances} x random mutation histories '
        '(in-place and whole-series value writes, label writes, values setter, status/iterations, add_variable, add_attribute + '
        'in-place edits of list attributes, lags/leads, names/check/endogenous/aliases/preferred_names appends, solve with and '
        'without trace, submodel edits, strict toggle), copy taken after a random prefix, mutation applied to either side. '
        'non-trivial = distinct (kind, route, history) with at least one mutation after the copy')
ASSUMPTIONS = ['immutable spans (range, tuple, pandas Index) may be shared; mutable list spans may not',
               'observational equality is judged on the snapshot of fsicverif/snap.py (all __dict__ entries, submodels recursively, traces)']
ANCHORS = [('fsic/core/containers.py', 'VectorContainer.copy'), ('fsic/core/containers.py', 'VectorContainer.__deepcopy__'),
           ('fsic/core/linkers.py', 'BaseLinker.copy'), ('fsic/core/linkers.py', 'BaseLinker.__deepcopy__'),
           ('fsic/core/interfaces.py', 'ModelInterface.__init__'), ('fsic/core/models.py', 'BaseModel.__init__'),
           ('fsic/core/linkers.py', 'BaseLinker.__init__'), ('fsic/extensions/common.py', 'AliasMixin.__init__'),
           ('fsic/extensions/model.py', 'TracerMixin.__init__')]
REQUIRED_COUNTERS = {'copies_taken': 300, 'mutations_applied': 1500, 'other_side_snapshots_compared': 1500, 'identity_sweeps': 300}
LEVEL_TEXT = ('Non-interference monitor: snapshot of the other side and of the class around every mutation of generated histories, '
              'for every copy route and object kind, plus an identity/shared-memory sweep over both object graphs.')
LEVEL_NOTE = 'Trusted: the snapshot and identity sweep in fsicverif/snap.py. Bounded by the mutation catalogue and history length.'
TECHNIQUE = 'twin snapshots around every mutation + identity / shares_memory sweep (runtime monitor)'


class Box:
    """A plain user object kept as an attribute value: hashable (by identity), yet mutable."""

    def __init__(self):
        self.items = [1]
        self.arr = np.zeros(2)


def nshards(tier):
    return 16


def kinds():
    import fsic
    from fsic.core import VectorContainer
    from fsic.extensions import AliasMixin, TracerMixin
    from fsic.extensions.model import PandasIndexFeaturesMixin
    Simple = fsic.build_model(fsic.parse_model('Y = C + G\nC = {c} * Y[-1] + <e>'))
    Lead = fsic.build_model(fsic.parse_model('H = 0.5 * H[-1] + X[1]'))

    class Aliased(AliasMixin, Simple):
        ALIASES = {'GDP': 'Y', 'Cons': 'C', 'Output': 'GDP'}
        PREFERRED_NAMES = ['GDP']

    class Traced(TracerMixin, Simple):
        pass

    class Both(AliasMixin, TracerMixin, PandasIndexFeaturesMixin, Simple):
        ALIASES = {'GDP': 'Y'}

    class Lk(fsic.BaseLinker):
        ENDOGENOUS = ['W']
        EXOGENOUS = ['Q']
        NAMES = ENDOGENOUS + EXOGENOUS
        CHECK = ENDOGENOUS

        def evaluate_t_after(self, t, **kw):
            self.W[t] = sum(sm.Y[t] for sm in self.submodels.values() if 'Y' in sm) * 0.5

    def container(span):
        c = VectorContainer(span)
        c.add_variable('X', 1.5)
        c.add_variable('K', list(range(len(span))))
        c.add_variable('S', 'ab')
        c.add_attribute('memo', [1, [2, 3]])
        return c

    def model(cls):
        def f(span, shared=None):
            # `shared`: one caller-owned float64 array handed to several instances (each must take its own copy)
            m = cls(span, c=0.5, G=10.0 if shared is None else shared)
            return m
        return f

    def linker(span):
        a, b = Simple(span, c=0.5, G=10.0), Simple(span, c=0.25, G=5.0)
        return Lk({'a': a, 'b': b, 7: Lead(span, X=1.0)})

    def nested(span):
        return Lk({'x': Traced(span, c=0.5, G=1.0)})

    def nested_first(span):
        # a linker whose first submodel is itself a linker, followed by plain models (insertion order is part of what is observable)
        inner = Lk({'p': Simple(span, c=0.5, G=2.0), 'q': Simple(span, c=0.75, G=3.0)})
        return Lk({'bloc': inner, 'us': Simple(span, c=0.25, G=5.0), 7: Lead(span, X=1.0)})

    class Lk0(fsic.BaseLinker):
        pass

    def empty_linker(span):
        # a linker created with no `submodels` argument at all (submodels may be attached to it later)
        return Lk0()

    def model_dtype(span, shared=None):
        # a model instantiated with a non-default dtype for its variables
        k = len(list(span)) % 3
        return Simple(span, dtype=[np.float32, int, 'float32'][k], c=1, G=10 if shared is None else shared)

    return {'model-dtype': model_dtype, 'linker-empty': empty_linker, 'container': container, 'model': model(Simple), 'aliased': model(Aliased), 'traced': model(Traced), 'mixins': model(Both),
            'linker': linker, 'linker-traced-submodel': nested, 'linker-nested-first': nested_first}


def spans(rng):
    import pandas as pd
    return rng.choice([lambda: range(2000, 2006), lambda: list(range(6)), lambda: ['a', 'b', 'c', 'd', 'e', 'f'],
                       lambda: pd.period_range('2000', periods=6, freq='Y'), lambda: np.arange(6)])


def mutations(obj, rng):
    """Catalogue of (name, callable) applicable to obj."""
    d = obj.__dict__
    out = []
    idx = [k for k in d['index'] if k != 'trace' and isinstance(d.get('_' + k), np.ndarray)]
    num = [k for k in idx if d['_' + k].dtype.kind in 'fi']
    n = len(d['span'])
    if num and n:
        k = rng.choice(num)
        i = rng.randrange(n)
        out += [('inplace-write', lambda: d['_' + k].__setitem__(i, 99)), ('whole-series', lambda: setattr(obj, k, [7] * n)),
                ('item-write', lambda: obj.__setitem__(k, 3)), ('label-write', lambda: obj.__setitem__((k, list(d['span'])[i]), 42)),
                ('values-setter', lambda: setattr(obj, 'values', 5))]
    if num and n and hasattr(obj, 'eval'):
        # expression evaluation over every numeric variable the object has (own namespace only)
        out.append(('eval-own-variables', lambda: [obj.eval(f'{x} * 2 + 1') for x in num]))
    if 'status' in d['index']:
        out += [('status-write', lambda: d['_status'].__setitem__(rng.randrange(n), 'X')), ('iterations-write', lambda: d['_iterations'].__setitem__(rng.randrange(n), 77))]
    newname = f'N{rng.randrange(1000)}'
    attr_name = rng.choice(['attr' + newname, 'model', 'mode', 'sub', 'models', 's', 'e', 'data', 'note', 'id_', 'spans', 'x'])
    attr_value = rng.choice([lambda: {'k': [1]}, lambda: {'k': [1]}, lambda: ([1, 2], np.zeros(2)), lambda: Box(), lambda: (Box(), 'x')])
    out += [('add-variable', lambda: obj.add_variable(newname, 2.0)), ('add-attribute', lambda: obj.add_attribute(attr_name, attr_value())),
            ('set-new-attribute', lambda: setattr(obj, attr_name + '_', [1, 2])),
            ('strict-toggle', lambda: setattr(obj, 'strict', not obj.strict))]
    for k_, v_ in list(d.items()):
        # attribute values that are hashable (a tuple, a plain object) and still hold mutable things
        if isinstance(v_, tuple) and v_ and isinstance(v_[0], list) and not k_.startswith('_'):
            out.append(('attribute-tuple-inner-append', lambda v_=v_: (v_[0].append(7), v_[1].__setitem__(0, 5.0))))
        elif isinstance(v_, Box):
            out.append(('attribute-object-inner-mutate', lambda v_=v_: (v_.items.append(3), v_.arr.__setitem__(1, -1.0))))
        elif isinstance(v_, tuple) and v_ and isinstance(v_[0], Box):
            out.append(('attribute-tuple-object-mutate', lambda v_=v_: v_[0].items.append(4)))
    if 'memo' in d:
        out += [('attribute-list-append', lambda: d['memo'].append(5)), ('attribute-nested-append', lambda: d['memo'][1].append(9))]
    for lst in ('names', 'check', 'endogenous', 'preferred_names', 'index', '_attributes'):
        if isinstance(d.get(lst), list):
            out.append((f'{lst}-append', lambda lst=lst: d[lst].append('ZZ' + newname)))
    if isinstance(d.get('aliases'), dict):
        out.append(('aliases-setitem', lambda: d['aliases'].__setitem__('Al' + newname, 'Y')))
    if 'status' in d['index'] and 'submodels' not in d and n:
        # a reindex() with fills of its own for the solution records (its result thrown away): the next plain reindex of anything is unaffected
        out.append(('reindex-with-record-fills', lambda: obj.reindex(list(d['span']) + ['later'], status='S', iterations=0)))
        out.append(('reindex-plain-then-look', lambda: (lambda r: (str(r.status[-1]), int(r.iterations[-1])) == ('-', -1) or (_ for _ in ()).throw(AssertionError('plain reindex fills')))(obj.reindex(list(d['span']) + ['later']))))
    if 'lags' in d:
        out += [('lags-set', lambda: setattr(obj, 'lags', d['lags'] + 1)), ('leads-set', lambda: setattr(obj, 'leads', d['leads'] + 2))]
    if isinstance(d['span'], list):
        out.append(('span-list-setitem', lambda: d['span'].__setitem__(0, 'changed')))
    if hasattr(obj, 'solve') and 'submodels' not in d:
        out.append(('solve', lambda: obj.solve(failures='ignore', errors='ignore', max_iter=5)))
        if 'trace' in d['index']:
            out.append(('solve-traced', lambda: obj.solve(failures='ignore', errors='ignore', max_iter=4, trace=True)))
    if 'submodels' in d:
        out.append(('linker-solve', lambda: obj.solve(failures='ignore', max_iter=4)))
        for key, sm in d['submodels'].items():
            out += [(f'submodel-inplace-write', lambda sm=sm: sm.__dict__['_' + sm.__dict__['index'][2]].__setitem__(0, -5.0)),
                    (f'submodel-add-variable', lambda sm=sm: sm.add_variable('SV' + newname, 1.0)),
                    (f'submodel-status-write', lambda sm=sm: sm.status.__setitem__(1, 'Q')),
                    (f'submodel-check-append', lambda sm=sm: sm.check.append('G'))]
            if 'trace' in sm.index:
                out.append(('submodel-solve-traced', lambda sm=sm: sm.solve(failures='ignore', errors='ignore', max_iter=3, trace=True)))
        if d['submodels']:
            out.append(('submodels-dict-setitem', lambda: d['submodels'].__setitem__('extra' + newname, next(iter(d['submodels'].values())))))
        else:
            import fsic
            Sm = type('Sm', (fsic.BaseModel,), {'ENDOGENOUS': ['Y'], 'NAMES': ['Y'], 'CHECK': ['Y']})
            out.append(('submodels-dict-insert', lambda: d['submodels'].__setitem__('ins' + newname, Sm(range(3)))))
    return out


def do(f):
    with warnings.catch_warnings():
        warnings.simplefilter('ignore')
        try:
            f()
            return 'ok'
        except Exception as e:
            return type(e).__name__


def eval_probe(obj, names):
    """What eval() resolves each name to on `obj` (values, or the exception class): part of what is observable."""
    out = {}
    if not hasattr(obj, 'eval'):
        return out
    with warnings.catch_warnings():
        warnings.simplefilter('ignore')
        for nm in names:
            try:
                out[nm] = ('ok', np.asarray(obj.eval(nm)).tolist())
            except Exception as e:
                out[nm] = ('exc', type(e).__name__)
    return out


def eval_probe_missing(other, names, have):
    """Names that first appear through the mutation (a variable added to one side): the other object never had them,
    so the 'before' observation is what a name unknown to it gives - decided on a name nobody has."""
    missing = [k for k in names if k not in have]
    if not missing or not hasattr(other, 'eval'):
        return {}
    unknown = eval_probe(other, ['Qq_never_defined_anywhere'])['Qq_never_defined_anywhere']
    return {k: unknown for k in missing if k not in other.__dict__['index']}


def identity_sweep(ctx, a, b, case):
    ctx.count('identity_sweeps')
    ia, ib = snap.mutable_ids(a), snap.mutable_ids(b)
    shared = set(ia) & set(ib)
    if shared:
        k = next(iter(shared))
        ctx.violation('shared-mutable-object', f'the two objects share a mutable object: {ia[k]} is {ib[k]} ({len(shared)} shared in all)', case)
        return False
    aa, ab = snap.arrays_of(a), snap.arrays_of(b)
    for ka, va in aa.items():
        for kb, vb in ab.items():
            if va.dtype != object and vb.dtype != object and va.size and vb.size and np.shares_memory(va, vb):
                ctx.violation('shared-array-memory', f'arrays {ka} and {kb} of the two objects share memory', case)
                return False
    return True


def one_history(ctx, kind, factory, route, rng):
    span_f = spans(rng)
    try:
        a = factory(span_f())
    except Exception as e:
        ctx.count('construction_failed')
        return
    hist = []
    case = {'kind': kind, 'route': route, 'span': type(a.span).__name__, 'history': hist}
    # prefix history on the original
    for _ in range(rng.randrange(0, 4)):
        name, f = rng.choice(mutations(a, rng))
        hist.append(['prefix', name, do(f)])
    cls_before = snap.class_snapshot(type(a))
    if route == 'sibling':
        if kind in ('model', 'aliased', 'traced', 'mixins') and rng.random() < 0.5:
            # both siblings are constructed from the *same* input array
            shared = np.full(len(a.span), 10.0)
            a = factory(span_f(), shared)
            b = factory(span_f(), shared)
            hist.append(['both', 'constructed-from-one-shared-array', 'ok'])
        else:
            b = factory(span_f())
        # siblings are only required to be independent, not equal
    else:
        try:
            b = {'copy': lambda: a.copy(), 'copy.copy': lambda: copy.copy(a), 'copy.deepcopy': lambda: copy.deepcopy(a)}[route]()
        except Exception as e:
            ctx.violation('copy-raises', f'{route} of a {kind} raised {type(e).__name__}: {e} after {hist}', case)
            return
        ctx.count('copies_taken')
        if type(b) is not type(a):
            ctx.violation('copy-class', f'{route} returned {type(b).__name__}, original is {type(a).__name__}', case)
            return
        d = snap.diff(snap.snapshot(a), snap.snapshot(b))
        if d:
            ctx.violation('copy-not-equal', f'{route} of a {kind} is not observationally equal to the original at {d[:5]}', case)
            return
    if rng.random() < 0.3:
        # the same caller-owned array is added as a new variable to both objects
        arr = np.arange(len(a.span), dtype=float) + 0.5
        nm = f'SH{rng.randrange(1000)}'
        r1, r2 = do(lambda: a.add_variable(nm, arr)), do(lambda: b.add_variable(nm, arr))
        hist.append(['both', 'add-variable-from-one-shared-array', f'{r1}/{r2}'])
    if rng.random() < 0.25 and hasattr(a, 'values'):
        # the same caller-owned 2-D array assigned to `values` on both objects
        try:
            sh = np.shape(a.values)
            if len(sh) == 2 and sh == np.shape(b.values) and sh[0] and sh[1]:
                block = np.full(sh, 3.5)
                r1, r2 = do(lambda: setattr(a, 'values', block)), do(lambda: setattr(b, 'values', block))
                hist.append(['both', 'values-from-one-shared-array', f'{r1}/{r2}'])
        except Exception:
            pass
    if rng.random() < 0.4:
        # one side's variable is assigned, whole, from the other side's live series of the same name (`dup.G = model.G`)
        common = [k for k in a.__dict__['index'] if k in b.__dict__['index'] and isinstance(k, str) and k.isidentifier() and k not in ('status', 'iterations', 'trace')]
        if common:
            nm = rng.choice(common)
            src, dst = (a, b) if rng.random() < 0.5 else (b, a)
            how = rng.choice(['attr', 'item', 'replace_values'])
            r = do({'attr': lambda: setattr(dst, nm, src[nm]), 'item': lambda: dst.__setitem__(nm, src[nm]), 'replace_values': lambda: dst.replace_values(**{nm: src[nm]})}[how])
            hist.append(['both', f'{"copy" if dst is b else "original"}.{nm} = <the other side\'s series> via {how}', r])
    if not identity_sweep(ctx, a, b, case):
        return
    # mutations after the copy, on either side
    for step in range(rng.randint(2, 6)):
        side = rng.choice(['original', 'copy'])
        target, other = (a, b) if side == 'original' else (b, a)
        name, f = rng.choice(mutations(target, rng))
        before = snap.snapshot(other)
        probe_names = sorted({k for o in (a, b) for k in o.__dict__['index'] if isinstance(k, str) and k.isidentifier() and k != 'trace'})
        probe_before = eval_probe(other, probe_names)
        outcome = do(f)
        hist.append([side, name, outcome])
        ctx.count('mutations_applied')
        ctx.seen('mutations', name)
        ctx.count('other_side_snapshots_compared')
        d = snap.diff(before, snap.snapshot(other))
        if d:
            ctx.violation('mutation-visible-on-other-side', f'{kind} via {route}: {name} on the {side} changed the other object at {d[:5]}', case)
            return
        probe_names = sorted(set(probe_names) | {k for k in target.__dict__['index'] if isinstance(k, str) and k.isidentifier() and k != 'trace'})
        probe_before.update({k: v for k, v in eval_probe_missing(other, probe_names, probe_before).items()})
        probe_after = eval_probe(other, probe_names)
        ctx.count('eval_probes_compared', len(probe_names))
        if probe_after != probe_before:
            bad = [k for k in probe_names if probe_after.get(k) != probe_before.get(k)]
            ctx.violation('mutation-visible-on-other-side', f'{kind} via {route}: after {name} on the {side}, eval({bad[0]!r}) on the other object gives {probe_after[bad[0]]} (before: {probe_before[bad[0]]})', case)
            return
        # each side resolves aliases through its *own* table: a name the other side has just declared is unknown here, and every
        # name declared here still reads the variable it points to
        for side_obj, foreign in ((other, target), (target, other)):
            own = side_obj.__dict__.get('aliases')
            if not isinstance(own, dict):
                continue
            theirs = foreign.__dict__.get('aliases') if isinstance(foreign.__dict__.get('aliases'), dict) else {}
            for alias in list(own) + [k for k in theirs if k not in own]:
                ctx.count('alias_resolutions_probed')
                try:
                    got = ('ok', np.asarray(side_obj[alias]).tolist())
                except Exception as e:
                    got = ('exc', type(e).__name__)
                if alias in own:
                    tgt, hops = own[alias], 0
                    while tgt in own and own[tgt] != tgt and hops < 10:
                        tgt, hops = own[tgt], hops + 1
                    try:
                        want = ('ok', np.asarray(side_obj[tgt]).tolist()) if tgt in side_obj.__dict__['index'] else None
                    except Exception:
                        want = None
                elif alias in side_obj.__dict__['index']:
                    want = None
                else:
                    want = ('exc', 'KeyError')
                if want is not None and got != want:
                    ctx.violation('mutation-visible-on-other-side', f'{kind} via {route}: after {name} on the {side}, obj[{alias!r}] on the {"other" if side_obj is other else "same"} object gives {str(got)[:80]}; '
                                                                    f'its own alias table ({dict(own)}) says {str(want)[:80]}', case)
                    return
        dc = snap.diff(cls_before, snap.class_snapshot(type(a)))
        if dc:
            ctx.violation('mutation-visible-on-class', f'{kind}: {name} on an instance changed class-level state at {dc[:5]}', case)
            return
    if not identity_sweep(ctx, a, b, case):
        return
    if route != 'sibling':
        # a second copy of the same original, taken after both have moved on: it equals the original as it is *now*
        # and shares nothing with the original or with the first copy
        try:
            c = {'copy': lambda: a.copy(), 'copy.copy': lambda: copy.copy(a), 'copy.deepcopy': lambda: copy.deepcopy(a)}[route]()
        except Exception as e:
            ctx.violation('copy-raises', f'second {route} of a {kind} raised {type(e).__name__}: {e} after {hist}', case)
            return
        ctx.count('second_copies_taken')
        hist.append(['original', f'second-{route}', 'ok'])
        d = snap.diff(snap.snapshot(a), snap.snapshot(c))
        if d:
            ctx.violation('copy-not-equal', f'a second {route} of the same {kind} is not observationally equal to the original as it is now, at {d[:5]}', case)
            return
        if not identity_sweep(ctx, a, c, case) or not identity_sweep(ctx, b, c, case):
            return
    ctx.evaluation((kind, route, case['span'], hist), nontrivial=True, sample=case)


def uncopyable_attributes(ctx, K, rng):
    """An attribute (or one element of an object-dtype variable) that cannot be deep-copied (a lock, a generator): the copy is
    either refused or complete - never an object that quietly shares the attribute's other, ordinary mutable contents."""
    import threading
    for kind, factory in K.items():
        for route in ('copy', 'copy.copy', 'copy.deepcopy'):
            for where in ('attribute', 'object-variable'):
                try:
                    a = factory(range(2000, 2005))
                except Exception:
                    continue
                case = {'kind': kind, 'route': route, 'uncopyable': where}
                ctx.evaluation(('uncopyable', kind, route, where), nontrivial=True, sample=case)
                try:
                    if where == 'attribute':
                        a.meta = {'lock': threading.Lock(), 'notes': ['n1'], 'table': np.zeros(3)}
                    else:
                        a.add_variable('OBJ', None, dtype=object)
                        a.OBJ[0] = ['n1']
                        a.OBJ[1] = (i for i in range(3))
                except Exception:
                    continue
                try:
                    b = {'copy': lambda: a.copy(), 'copy.copy': lambda: copy.copy(a), 'copy.deepcopy': lambda: copy.deepcopy(a)}[route]()
                except Exception:
                    ctx.count('uncopyable_copy_refused')
                    continue
                ctx.count('uncopyable_copy_made')
                if where == 'attribute':
                    shared = b.meta is a.meta or b.meta.get('notes') is a.meta['notes'] or np.shares_memory(b.meta.get('table', np.zeros(1)), a.meta['table'])
                else:
                    shared = b.OBJ is a.OBJ or np.shares_memory(b.OBJ, a.OBJ) or b.OBJ[0] is a.OBJ[0]
                if shared:
                    ctx.violation('shared-mutable-object', f'{route} of a {kind} holding an uncopyable object in an {where} returned an object that shares that {where}\'s other mutable contents with the original', case)
                    return


def run_shard(ctx):
    rng = ctx.rng('c11')
    K = kinds()
    if ctx.shard == 0:
        uncopyable_attributes(ctx, K, rng)
    count = ctx.pick(200, 6000)
    for i in range(count):
        kind = rng.choice(list(K))
        route = rng.choice(['copy', 'copy.copy', 'copy.deepcopy', 'sibling'])
        ctx.seen('kinds', kind)
        ctx.seen('routes', route)
        one_history(ctx, kind, K[kind], route, rng)


def replay(ctx, case):
    ctx.inconclusive_because('histories are re-generated from the seed; re-run the shard with the same VERIF_SEED (the witness history is in the replay file)')
