"""Reference semantics for generated programs: an evaluator over the reference
rendering of the AST (terms are R()/W() calls on plain arrays), producing the values and
the exact read/write trace the statement of C01 prescribes."""
import warnings

import numpy as np

from . import gen


class OutOfSpan(Exception):
    """The reference would have to read or write outside the span."""


class RefRun:
    """Evaluates a program's statements at position p over `data` (name -> float array).

    trace: list of statements, each {'reads': [(name, pos)], 'writes': [(name, pos)], 'exc': type or None}
    """

    def __init__(self, prog, data, span_labels=None, order=None):
        self.prog = prog
        self.data = data
        self.span_labels = span_labels
        self.n = len(next(iter(data.values()))) if data else 0
        # `order`: explicit statement order (for symbol lists re-ordered by the caller); default: symbol-list order of parse_model
        self.src = [gen.render_eq(e, 'ref') for e in (order if order is not None else gen.execution_order(prog))]
        self.code = [compile(x, '<ref>', 'eval') for x in self.src]

    def evaluate(self, p, stop_on_exception=True):
        """One Gauss-Seidel pass at normalised position p; mutates self.data."""
        n = self.n
        trace = []
        cur = {}

        def R(name, k):
            q = p + k
            if not 0 <= q < n:
                raise OutOfSpan((name, q))
            cur['reads'].append((name, q))
            return self.data[name][q]

        def RN(name, label):
            q = self.position_of(label)
            cur['reads'].append((name, q))
            return self.data[name][q]

        def W(name, k, value):
            q = p + k
            if not 0 <= q < n:
                raise OutOfSpan((name, q))
            cur['writes'].append((name, q))
            self.data[name][q] = value

        env = {'R': R, 'RN': RN, 'W': W, 'np': np, 'max': max, 'min': min, 'abs': abs, 'float': float, 'len': len,
               '__builtins__': {}}
        for code in self.code:
            cur = {'reads': [], 'writes': [], 'exc': None}
            trace.append(cur)
            try:
                eval(code, env)
            except OutOfSpan:
                raise
            except Exception as e:
                cur['exc'] = type(e)
                if stop_on_exception:
                    break
        return trace

    def position_of(self, label):
        if self.span_labels is None:
            raise KeyError(label)
        for i, l in enumerate(self.span_labels):
            if l == label or str(l) == str(label):
                return i
        raise KeyError(label)


def feasible_positions(n, lags, leads):
    return list(range(lags, n - leads))


def make_data(names, n, rng, style='generic'):
    """Distinct, finite, moderately sized values (positive for 'positive')."""
    data = {}
    for j, nm in enumerate(names):
        if style == 'positive':
            vals = [round(rng.uniform(0.2, 3.0), 4) for _ in range(n)]
        elif style == 'small':
            vals = [round(rng.uniform(-1.0, 1.0), 4) for _ in range(n)]
        elif style == 'ints':
            vals = [float(rng.randint(-3, 3)) for _ in range(n)]
        elif style == 'extreme':
            # special values and extreme magnitudes (both sides run the same NumPy / Python operations on them)
            vals = [rng.choice([0.0, -0.0, 5e-324, 1e-310, 1e308, -1e308, 1e-5, float(2 ** 53 + 2), 1.0, -1.0, 0.5]) for _ in range(n)]
        else:
            vals = [round(rng.uniform(-4.0, 4.0), 4) for _ in range(n)]
        data[nm] = np.array(vals, dtype=float)
    return data


class quiet:
    """Silence NumPy/Python numeric warnings while both sides evaluate."""

    def __enter__(self):
        self.w = warnings.catch_warnings()
        self.w.__enter__()
        warnings.simplefilter('ignore')
        self.e = np.errstate(all='ignore')
        self.e.__enter__()
        return self

    def __exit__(self, *a):
        self.e.__exit__(*a)
        self.w.__exit__(*a)
        return False


def same_array(a, b):
    a, b = np.asarray(a), np.asarray(b)
    return a.shape == b.shape and a.dtype == b.dtype and bool(np.array_equal(a, b, equal_nan=(a.dtype.kind in 'fc')))
