"""C15 - all ways of building a class from symbols yield the same model.

Monitor: N-way twin comparison.  For each generated program and each build setting the
class from build_model, the class obtained by executing build_model_definition's text,
the class obtained by executing Model.CODE, and the typed / untyped variants are compared
on their class attributes and on the full value matrix after evaluation passes and a
solve on identical data; a recording converter observes how often, in which order and
with which symbols it is called and where its output lands in the definition."""
import textwrap
import typing
import warnings

import numpy as np

from . import gen, ref
from .c01 import parser_errors

PROPERTY = 'C15'
LEVEL = 'exploration'
RULE = ('random C01-grammar programs (including zero equations, zero symbols, verbatim-only, fenced blocks) x with_type_hints in '
        '{True, False} x lags/leads/min_lags/min_leads settings x converter in {default, identity-on-code, wrapping, multi-line}; '
        'every variant is instantiated on the same random data and evaluated at every feasible position and solved. '
        'non-trivial = distinct (script, settings, converter) with at least one equation')
ASSUMPTIONS = ['the namespace used to execute the definition text provides BaseModel, typing names and np (as fsic.parser itself does)']
ANCHORS = [('fsic/parser.py', 'MODEL_TEMPLATE_TYPED'), ('fsic/parser.py', 'MODEL_TEMPLATE_UNTYPED'), ('fsic/parser.py', 'build_model_definition'),
           ('fsic/parser.py', 'build_model')]
REQUIRED_COUNTERS = {'variants_built': 500, 'variant_pairs_compared': 500, 'evaluations_compared': 1000, 'converter_calls_observed': 200}
LEVEL_TEXT = 'N-way differential monitor over build routes, template variants, settings and converters, comparing class attributes and full value matrices.'
LEVEL_NOTE = 'Trusted: exec of the generated definition in a namespace equivalent to fsic.parser\'s own.'
TECHNIQUE = 'N-way twin comparison of build routes + recording converter (runtime monitor)'
ATTRS = ('ENDOGENOUS', 'EXOGENOUS', 'PARAMETERS', 'ERRORS', 'NAMES', 'CHECK', 'LAGS', 'LEADS')


def nshards(tier):
    return 16


def namespace():
    import fsic
    ns = {'BaseModel': fsic.BaseModel, 'np': np}
    for k in ('Any', 'Callable', 'Dict', 'Iterator', 'List', 'Match', 'NamedTuple', 'Optional', 'Tuple', 'Union'):
        ns[k] = getattr(typing, k)
    return ns


def exec_class(text):
    ns = namespace()
    exec(text, ns)
    return ns['Model']


def run_model(Model, n, data, feasible):
    """Value matrix after evaluation passes at every feasible position, then a solve; or the exception class."""
    out = []
    with ref.quiet():
        try:
            m = Model(range(n))
            for nm, v in data.items():
                m[nm] = v.copy()
            for p in feasible:
                m._evaluate(p)
            out.append(('eval', np.array([m[k] for k in m.names]) if m.names else np.zeros((0, n))))
        except Exception as e:
            out.append(('eval-exc', type(e).__name__))
        try:
            m = Model(range(n))
            for nm, v in data.items():
                m[nm] = v.copy()
            r = m.solve(max_iter=4, failures='ignore', errors='ignore')
            out.append(('solve', list(r[1]), list(r[2]), np.array([m[k] for k in m.names]) if m.names else np.zeros((0, n)), ''.join(m.status), m.iterations.tolist()))
        except Exception as e:
            out.append(('solve-exc', type(e).__name__))
    return out


def results_equal(a, b):
    if len(a) != len(b):
        return False
    for x, y in zip(a, b):
        if x[0] != y[0] or len(x) != len(y):
            return False
        for u, v in zip(x[1:], y[1:]):
            if isinstance(u, np.ndarray):
                if u.shape != v.shape or not np.array_equal(u, v, equal_nan=True):
                    return False
            elif u != v:
                return False
    return True


CONVERTERS = {
    'default': None,
    'identity-on-code': lambda s: s.code,
    'wrapping': lambda s: f'# begin {s.name}\n{s.code}\n# end {s.name}',
    'multi-line': lambda s: 'if True:\n    ' + s.code.replace('\n', '\n    ') + '\nelse:\n    pass',
    # inserted code that behaves differently if the build route compiles with other options (assert / __debug__)
    # inserted code containing braces, percent signs and backslashes (dict / set literals, an f-string, a %-format): inserted as is
    'braces': lambda s: s.code + "\n_k = {'k': 1.5, 'j': {2, 3}}['k'] * len(f'{t:03d}{{}}') + len('%d%%' % t) + len('a\\b')",
    # ... including text spelled like the class template's own fields
    'template-fields': lambda s: s.code + "\n_m = len('{lags}{leads}{errors}{exogenous}{parameters}{endogenous}{equations}{docstring}{version}{check}') + len(f'{errors}:{t}')",
    # inserted code with text that looks like annotations (`name: name = value`, `name: name,`): one-line if, dict of names, lambda, slice
    'annotation-lookalikes': lambda s: s.code + "\n_a = t\n_b = 0.5\nif _a < 0: _a = 0\n_d = {_a: _b, _b: _a}\n_f = (lambda q: q, _a)\n_s = [1, 2, 3][_a: _a + 1]",
    'guarded': lambda s: s.code + '\nassert t < 0, "guard"',
    'debug-dependent': lambda s: s.code + '\nif __debug__:\n    self._status[t] = "Q"',
}


def one_program(ctx, script, rng, settings_list):
    import fsic
    case = {'script': script}
    try:
        symbols = fsic.parse_model(script)
    except parser_errors():
        ctx.count('program_rejected')
        return
    n_eq = sum(1 for s in symbols if s.equation is not None and s.code is not None and s.type.name in ('ENDOGENOUS', 'VERBATIM'))
    _build_and_compare(ctx, script, symbols, n_eq, rng, settings_list, case)
    # the same symbols in another order (symbol lists may be concatenated or hand-ordered): verbatim symbols first, rest reversed
    reordered = [s for s in symbols if s.type.name == 'VERBATIM'] + [s for s in reversed(symbols) if s.type.name != 'VERBATIM']
    if reordered != symbols:
        # lag / lead lengths are a property of the set of symbols, not of the order they are listed in
        try:
            M1, M2 = fsic.build_model(symbols), fsic.build_model(reordered)
            if (M1.LAGS, M1.LEADS) != (M2.LAGS, M2.LEADS):
                ctx.violation('variant-attributes', f'the same symbols listed verbatim-first / rest reversed give LAGS, LEADS = {(M2.LAGS, M2.LEADS)}; in parse order {(M1.LAGS, M1.LEADS)}', dict(case, symbol_order='verbatim-first-rest-reversed'))
                return
        except Exception:
            pass
    if n_eq > 1 and reordered != symbols:
        ctx.count('reordered_symbol_lists')
        _build_and_compare(ctx, script, reordered, n_eq, rng, settings_list[:1], dict(case, symbol_order='verbatim-first-rest-reversed'))


    # the same symbols after a trip through JSON (named tuples become lists, the IntEnum type its integer): an equal list, hence the
    # same definition
    import json as _json
    from fsic.parser import Symbol as _Symbol
    try:
        revived = [_Symbol(*row) for row in _json.loads(_json.dumps(symbols))]
    except Exception:
        revived = None
    if revived is not None and revived == list(symbols):
        ctx.count('json_revived_symbol_lists')
        for typed in (True, False):
            try:
                ta, tb = fsic.build_model_definition(symbols, with_type_hints=typed), fsic.build_model_definition(revived, with_type_hints=typed)
            except Exception as e:
                ctx.violation('build-raises', f'building from symbols revived from JSON (equal to the parsed list) raised {type(e).__name__}: {str(e)[:200]}', dict(case, symbol_order='revived from JSON'))
                return
            if ta != tb:
                ctx.violation('variant-attributes', f'symbols revived from JSON compare equal to the parsed ones, yet the definition built from them differs (typed={typed})', dict(case, symbol_order='revived from JSON'))
                return
    # one equation switched off by hand (`equation` blanked, `code` left behind): a symbol without an equation contributes its
    # variable but no code - the converter is not called for it and nothing of it reaches _evaluate()
    carriers = [i for i, s in enumerate(symbols) if s.equation is not None and s.code is not None and s.type.name in ('ENDOGENOUS', 'VERBATIM')]
    if carriers:
        k = carriers[len(script) % len(carriers)]
        off = [s._replace(equation=None) if i == k else s for i, s in enumerate(symbols)]
        ctx.count('symbol_lists_with_an_equation_switched_off')
        c3 = dict(case, symbol_order=f'equation of symbol #{k} blanked')
        _build_and_compare(ctx, script, off, n_eq - 1, rng, settings_list[:1], c3)
        try:
            text = fsic.build_model_definition(off)
        except Exception as e:
            ctx.violation('build-raises', f'building with the equation of {symbols[k].name!r} blanked raised {type(e).__name__}: {str(e)[:200]}', c3)
            return
        code_k = textwrap.indent(symbols[k].code, '        ')
        others = [textwrap.indent(s.code, '        ') for i, s in enumerate(off) if i != k and s.equation is not None and s.code is not None]
        if code_k in text and not any(code_k in o for o in others) and symbols[k].code.strip() != 'pass':      # (`pass` is what an empty body holds anyway)
            ctx.violation('symbols-without-equations', f'symbol {symbols[k].name!r} has no equation (blanked) yet its code {symbols[k].code!r} is in the definition', c3)


def _build_and_compare(ctx, script, symbols, n_eq, rng, settings_list, case):
    import fsic
    for kw in settings_list:
        for conv_name, conv in CONVERTERS.items():
            calls = []

            def recording(s, conv=conv):
                out = conv(s)
                calls.append((s, out))
                return out
            c2 = dict(case, settings=kw, converter=conv_name)
            ctx.evaluation((script, kw, conv_name, case.get('symbol_order')), nontrivial=n_eq > 0, sample=c2)
            variants = {}
            texts = {}
            symbols_image = list(symbols)
            try:
                for typed in (True, False):
                    args = dict(kw, with_type_hints=typed)
                    if conv is not None:
                        args['converter'] = recording
                    calls.clear()
                    texts[typed] = fsic.build_model_definition(symbols, **args)
                    calls_def = list(calls)
                    calls.clear()
                    M = fsic.build_model(symbols, **args)
                    calls_build = list(calls)
                    variants[('build_model', typed)] = M
                    variants[('exec-definition', typed)] = exec_class(texts[typed])
                    variants[('exec-CODE', typed)] = exec_class(M.CODE)
                    if M.CODE != texts[typed]:
                        ctx.violation('code-attribute-differs', f'Model.CODE differs from build_model_definition() (typed={typed})', c2)
                        return
                    if conv is not None:
                        ctx.count('converter_calls_observed', len(calls_def) + len(calls_build))
                        want = [s for s in symbols if s.type.name in ('ENDOGENOUS', 'VERBATIM') and s.equation is not None and s.code is not None]
                        for got_calls, where in ((calls_def, 'build_model_definition'), (calls_build, 'build_model')):
                            if [c[0] for c in got_calls] != want:
                                ctx.violation('converter-calls', f'{where}: converter called for {[c[0].name for c in got_calls]}, expected once per equation-carrying symbol in order {[s.name for s in want]}', c2)
                                return
                        # output inserted verbatim (modulo the fixed indentation), in order
                        pos = 0
                        for s, out in calls_def:
                            block = textwrap.indent(out, '        ')
                            at = texts[typed].find(block, pos)
                            if at < 0:
                                ctx.violation('converter-output-not-verbatim', f'converter output for {s.name} not found (in order) in the definition: {out!r}', c2)
                                return
                            pos = at + len(block)
            except Exception as e:
                ctx.violation('build-raises', f'building with {kw}, converter={conv_name} raised {type(e).__name__}: {str(e)[:300]}', c2)
                return
            ctx.count('variants_built', len(variants))
            if list(symbols) != symbols_image:
                ctx.violation('argument-mutated', f'building changed the caller\'s symbol list: {len(symbols_image)} symbols before, {len(symbols)} after (or reordered / replaced)', c2)
                return
            # every equation-carrying symbol (identical verbatim statements included) must appear in the definition
            if conv is None:
                want_blocks = [s.code for s in symbols if s.type.name in ('ENDOGENOUS', 'VERBATIM') and s.equation is not None and s.code is not None]
                pos = 0
                for code in want_blocks:
                    block = textwrap.indent(code, '        ')
                    at = texts[True].find(block, pos)
                    if at < 0:
                        ctx.violation('equation-missing-from-definition', f'code of an equation-carrying symbol is missing (in order) from the definition: {code!r}', c2)
                        return
                    pos = at + len(block)
            # class attributes
            ref_key = ('build_model', True)
            R = variants[ref_key]
            for key, M in variants.items():
                ctx.count('variant_pairs_compared')
                for a in ATTRS:
                    if getattr(M, a) != getattr(R, a):
                        ctx.violation('variant-attributes', f'{key}: {a} = {getattr(M, a)!r}, build_model(typed) has {getattr(R, a)!r}', c2)
                        return
            if R.LAGS < 0 or R.LEADS < 0:
                ctx.violation('variant-attributes', f'lag / lead *lengths* LAGS={R.LAGS}, LEADS={R.LEADS} built with {kw}', c2)
                return
            # behaviour
            n = R.LAGS + R.LEADS + 3
            data = ref.make_data(list(R.NAMES), n, rng, 'positive')
            feasible = list(range(R.LAGS, n - R.LEADS))
            base = run_model(R, n, data, feasible)
            for key, M in variants.items():
                if key == ref_key:
                    continue
                got = run_model(M, n, data, feasible)
                ctx.count('evaluations_compared')
                if not results_equal(base, got):
                    ctx.violation('variant-behaviour', f'{key} behaves differently from build_model(typed): {[x[0] for x in got]} vs {[x[0] for x in base]}', c2)
                    return
            if conv is None and n_eq == 0:
                # no equations: a valid model that solves trivially
                if base[-1][0] != 'solve' or not all(base[-1][2]):
                    ctx.violation('empty-model-does-not-solve', f'a model without equations did not solve trivially: {base[-1][:3]}', c2)
                    return


def run_shard(ctx):
    rng = ctx.rng('c15')
    rp = gen.RandomPrograms(rng, max_depth=3, max_eqs=5, max_names=8, big_offsets=True, lhs_offsets=(0, 0, 0, -1))
    all_settings = [{}, {'lags': 0}, {'lags': 2, 'leads': 1}, {'min_lags': 3}, {'min_leads': 2, 'lags': 1}, {'leads': 0, 'min_lags': 1},
                    {'min_lags': -2}, {'min_leads': -1, 'min_lags': np.int64(0)}]      # a minimum below zero is no minimum at all
    fixed = ['`self._Y[t] = self._Y[t] * 2`\n`self._Y[t] = self._Y[t] * 2`\nY = X', 'Y = X\n```\nself._Y[t] = self._Y[t] + 1\n```\n```\nself._Y[t] = self._Y[t] + 1\n```',
             'Y = X\n```\nself._Y[t] = {"a": 2.0, "b": 3.0}["a"] * self._Y[t] + len(f"{t}{{x}}") + len({1, 2})\n```',
             'Y = X\n```\nassert self._X[t] < 0.0, "X must be negative"\n```', 'Y = X\n```\nif __debug__:\n    self._Y[t] = self._Y[t] + 1\n```',
             'Y = X\n```\ny: float = self._Y[t]\nif y < 0.5: y = 0.5\nself._Y[t] = {y: y}[y]\n```',
             '', '# only a comment\n', '```\npass\n```', '`x = 1`', '```\nself._Y[t] = 2.0\n```\nY = Y', 'Y = X', 'Y = 1\nZ = Y[-1] + {a} * <e>[1]']
    for i, script in enumerate(fixed):
        if ctx.mine(i):
            one_program(ctx, script, rng, all_settings)
    for i in range(ctx.pick(40, 800)):
        prog = rp.program()
        if gen.classify(prog).reject:
            continue
        lay = gen.Layout(rng, noise=rng.choice([0.0, 0.3]), breaks=rng.choice([0.0, 0.3]), comments=rng.choice([0.0, 0.3]))
        script = gen.render_program(prog, lay)
        one_program(ctx, script, rng, [{}] + rng.sample(all_settings[1:], 2))
    big = gen.big_programs(rng, big_offsets=True)
    for i in range(ctx.pick(1, 10)):
        prog = big.program()
        if gen.classify(prog).reject:
            continue
        ctx.count('big_programs')
        one_program(ctx, gen.render_program(prog), rng, [{}])
    stateful_converter(ctx)
    falsy_converter(ctx)
    block_converter(ctx, rng)
    # symbols without an equation contribute variables but no code
    import fsic
    from fsic.parser import Symbol, Type
    syms = [Symbol('A', Type.ENDOGENOUS, 0, 0, None, None), Symbol('B', Type.EXOGENOUS, -2, 0, None, None), Symbol('c', Type.PARAMETER, 0, 1, None, None),
            Symbol('e', Type.ERROR, 0, 0, None, None), Symbol('exp', Type.FUNCTION, None, None, None, None)]
    ctx.evaluation('symbols-without-equations', nontrivial=True)
    text = fsic.build_model_definition(syms)
    M = fsic.build_model(syms)
    ok = (M.ENDOGENOUS, M.EXOGENOUS, M.PARAMETERS, M.ERRORS, M.LAGS, M.LEADS) == (['A'], ['B'], ['c'], ['e'], 2, 1) and text.rstrip().endswith('pass')
    if not ok:
        ctx.violation('symbols-without-equations', f'symbols without equations: lists {(M.ENDOGENOUS, M.EXOGENOUS, M.PARAMETERS, M.ERRORS, M.LAGS, M.LEADS)}, body ends {text.rstrip()[-20:]!r}', {'kind': 'no-equations'})
    r = M(range(5)).solve()
    if not all(r[2]):
        ctx.violation('empty-model-does-not-solve', f'model without code did not solve: {r}', {'kind': 'no-equations'})
    # empty symbol list
    E = fsic.build_model([])
    r = E(range(3)).solve()
    if E.NAMES != [] or not all(r[2]) or len(r[2]) != 3:
        ctx.violation('empty-model-does-not-solve', f'empty symbol list: NAMES {E.NAMES}, solve -> {r}', {'kind': 'empty'})


def stateful_converter(ctx):
    """One converter object reused across builds while its state changes: every build must insert the converter's
    *current* output, and build_model / build_model_definition / CODE must keep agreeing."""
    import fsic

    class Tagging:
        def __init__(self):
            self.tag = 'A'
            self.calls = 0

        def __call__(self, s):
            self.calls += 1
            return f'# tag {self.tag}\n{s.code}\n_ = {self.tag!r}'

    symbols = fsic.parse_model('Y = X + 1\nZ = Y[-1] * 2')
    conv = Tagging()
    for rep, tag in enumerate(['A', 'B', 'B', 'C', 'A']):
        conv.tag = tag
        before = conv.calls
        case = {'kind': 'stateful-converter', 'tags_so_far': rep, 'tag': tag}
        ctx.evaluation(('stateful-converter', rep, tag), nontrivial=True)
        for typed in (True, False):
            M = fsic.build_model(symbols, converter=conv, with_type_hints=typed)
            text = fsic.build_model_definition(symbols, converter=conv, with_type_hints=typed)
            ctx.count('converter_calls_observed', conv.calls - before)
            if M.CODE != text or f'# tag {tag}' not in M.CODE or any(f'# tag {o}' in M.CODE for o in 'ABC' if o != tag):
                ctx.violation('stale-converter-output', f'build {rep} with converter state {tag!r}: CODE does not hold the converter\'s current output (or differs from build_model_definition)', case)
                return
        if conv.calls - before != 8:
            ctx.violation('converter-calls', f'build {rep}: converter called {conv.calls - before} times for 2 equations x 2 builds x 2 templates, expected 8', case)
            return


def falsy_converter(ctx):
    """A converter is whatever callable the caller passes - including an object that is 'false' when handed over (a recording list
    with __call__, empty until its first call; an object with __bool__ / __len__): it is called once per equation-carrying symbol and
    its output inserted."""
    import fsic

    class Recording(list):
        def __call__(self, s):
            self.append(s.name)
            return s.code + '\n_marker = 1'

    class Never:
        calls = 0

        def __bool__(self):
            return False

        def __call__(self, s):
            type(self).calls += 1
            return s.code + '\n_marker = 1'

    symbols = fsic.parse_model('Y = X + 1\nZ = Y[-1] * 2')
    for kind, mk, count in (('empty list subclass', Recording, lambda c: len(c)), ('__bool__ False', Never, lambda c: Never.calls)):
        for typed in (True, False):
            for route in ('build_model', 'build_model_definition'):
                conv = mk()
                Never.calls = 0
                case = {'kind': 'falsy-converter', 'converter': kind, 'typed': typed, 'route': route}
                ctx.evaluation(('falsy-converter', kind, typed, route), nontrivial=True, sample=case)
                text = fsic.build_model(symbols, converter=conv, with_type_hints=typed).CODE if route == 'build_model' else fsic.build_model_definition(symbols, converter=conv, with_type_hints=typed)
                ctx.count('converter_calls_observed', count(conv))
                if count(conv) != 2 or text.count('_marker = 1') != 2:
                    ctx.violation('converter-calls', f'{route} with a converter object that is false when passed ({kind}): called {count(conv)} time(s), its output inserted {text.count("_marker = 1")} time(s); expected 2 and 2', case)
                    return


def block_converter(ctx, rng):
    """A converter whose first output opens a block and whose later outputs are indented to stay inside it: 'inserted
    verbatim' includes the leading white space of every line, and the built model must behave as the inserted text says."""
    import fsic

    class Block:
        opened = False

        def __call__(self, s):
            body = textwrap.indent(s.code, '    ')
            if not self.opened:
                self.opened = True
                return "if not kwargs.get('frozen', False):\n" + body
            return body + '\n    pass'

    scripts = ['Y = X + 1\nZ = Y * 2\nW = Z + Y', 'A = B[-1] + 1\nC = A * 2', 'Y = X\n```\nself._Y[t] = self._Y[t] + 1\n```\nZ = Y + 1']
    for k, script in enumerate(scripts):
        symbols = fsic.parse_model(script)
        for typed in (True, False):
            case = {'kind': 'block-converter', 'script': script, 'typed': typed}
            ctx.evaluation(('block-converter', script, typed), nontrivial=True)
            outs = []
            conv = Block()

            def recording(s, conv=conv):
                out = conv(s)
                outs.append(out)
                return out
            try:
                text = fsic.build_model_definition(symbols, converter=recording, with_type_hints=typed)
                conv.opened = False
                M = fsic.build_model(symbols, converter=conv, with_type_hints=typed)
            except Exception as e:
                ctx.violation('build-raises', f'building {script!r} with a block-opening converter raised {type(e).__name__}: {str(e)[:200]}', case)
                return
            ctx.count('converter_calls_observed', len(outs))
            pos = 0
            for out in outs:
                block = textwrap.indent(out, '        ')
                at = text.find(block, pos)
                if at < 0:
                    ctx.violation('converter-output-not-verbatim', f'converter output {out!r} not found (with its own indentation, in order) in the definition', case)
                    return
                pos = at + len(block)
            if M.CODE != text:
                ctx.violation('code-attribute-differs', 'Model.CODE differs from build_model_definition() with a block-opening converter', case)
                return
            for frozen in (True, False):
                m = M(range(4), **{nm: 3.0 for nm in M.NAMES if nm not in M.ENDOGENOUS})
                for nm in M.ENDOGENOUS:
                    m[nm] = -1.0
                m.solve(frozen=frozen, failures='ignore', max_iter=3)
                moved = [nm for nm in M.ENDOGENOUS if not np.all(m[nm][M.LAGS:] == -1.0)]
                ctx.count('evaluations_compared')
                if frozen and moved:
                    ctx.violation('variant-behaviour', f'{script!r}: the inserted text keeps every equation inside `if not frozen:`, yet solve(frozen=True) changed {moved}', case)
                    return
                if not frozen and len(moved) != len(M.ENDOGENOUS):
                    ctx.violation('variant-behaviour', f'{script!r}: solve(frozen=False) changed only {moved} of {M.ENDOGENOUS}', case)
                    return


def replay(ctx, case):
    if 'script' not in case:
        ctx.inconclusive_because('structural case: re-run the shard')
        return
    ctx.evaluation(case['script'], nontrivial=True)
    one_program(ctx, case['script'], ctx.rng('c15'), [case.get('settings', {})])
