"""C05 - solve() equals the ordered sequence of single-period solves; failures contained.

Monitor: twin runs.  Model A runs solve(start, end, **options); an identical twin B runs
the single-period solver over the period list given by the reference label model; full
snapshots and the returned (labels, positions, flags) triple are compared.  Faults
(exception, non-finite value, non-convergence) are injected at every single period of
the range in turn through scripted models under every errors x failures policy."""
import math
import warnings

import numpy as np

from . import scripted, spans
from .c04 import snapshot

PROPERTY = 'C05'
LEVEL = 'fault_enumeration'
RULE = ('scripted models (random per-period outcome scripts) and parser-built models with lags/leads over every span type of the '
        'catalogue (range, lists, NumPy arrays, pandas Index/RangeIndex/PeriodIndex/DatetimeIndex) x all (start, end) pairs incl. '
        'reversed, boundary, unknown and multi-position labels x sampled option sets (min/max_iter, tol, offset, failures, errors, '
        'catch_first_error); one fault (exception, NaN, +inf, warning, non-convergence) injected at every period position in turn '
        'under every errors x failures policy. non-trivial = distinct (span kind, n, start, end, options, fault) tuple')
ASSUMPTIONS = ['a reversed (start after end) pair visits no period', 'labels are unique within a span; Python == is label equality']
ANCHORS = [('fsic/core/interfaces.py', 'SolverMixin.iter_periods'), ('fsic/core/interfaces.py', 'SolverMixin.solve'),
           ('fsic/core/interfaces.py', 'SolverMixin.solve_period'), ('fsic/core/containers.py', 'VectorContainer._locate_period_in_span'),
           ('fsic/core/containers.py', 'VectorContainer._locate_period_in_span_fallback'), ('fsic/core/interfaces.py', 'PeriodIter')]
REQUIRED_COUNTERS = {'twin_runs_compared': 500, 'faults_injected': 200, 'label_errors_checked': 100, 'solve_period_twins': 300}
LEVEL_TEXT = ('Twin-run monitor (solve() vs ordered single-period loop) with full-state comparison, over every span type and every '
              '(start, end) pair of short spans, plus single-fault injection at every period position under every policy.')
LEVEL_NOTE = 'Trusted: the reference label model (fsicverif/spans.py) and the scripted workload. Bounded by span length <= 6.'
TECHNIQUE = 'twin-run state comparison + fault injection at every period (runtime monitor)'


def nshards(tier):
    return 16


def state_equal(a, b):
    return not scripted.changed_cells(a, b)


def random_scripts(rng, n, fault_at=None, fault=None):
    out = {}
    for p in range(n):
        k = rng.randrange(0, 4)
        out[p] = [(rng.choice(scripted.FINITE_OUT), rng.choice(['same', 'same', 'big'])) for _ in range(k)]
    if fault_at is not None:
        if fault == 'nonconv':
            out[fault_at] = [('big', 'same')] * 50
        elif fault == 'small-then-same':
            out[fault_at] = [('small', 'same')]          # converges; the fault is the post-solution hook's (set by the caller)
        else:
            out[fault_at] = [(fault, 'same'), ('zero', 'same')]
    return out


HISTORY = {'other': None}


def make(Model, spec, scripts, tol):
    other = HISTORY['other']
    if other is not None:
        # reach the span under test through label look-ups and a solve on a shifted span, then reindex()
        m = Model(other.make(), tol=tol, X=1.0)
        for i in range(other.n):
            lab = other.labels[i][0]
            if lab is not None:
                m['A', lab]
        call(m.solve, failures='ignore', errors='ignore', max_iter=1)
        m = m.reindex(spec.make())
        m.__dict__['v_log'] = []
        m.__dict__.pop('v_passvals', None)
        m.status = '-'
        m.iterations = -1
        m.X = 1.0
    else:
        m = Model(spec.make(), tol=tol, X=1.0)
    m.__dict__['v_scripts_by_t'] = {k: list(v) for k, v in scripts.items()}
    for i in range(spec.n):
        m.A[i] = 0.25 * i
        m.B[i] = -0.5 * i
    from .common import h64
    prior = h64(['prior', spec.kind, {str(k): v for k, v in scripts.items()}]) % 3
    if prior:
        # the model has been solved before: every period already carries solution information, which a run leaves alone
        # wherever it does not (or not yet) solve
        m.status = ['.', 'F'][prior - 1]
        m.iterations = 2 + prior
    return m


CALLER_FILTERS = ['ignore', 'ignore', 'error', 'always', 'default', 'error']
CALLER_FILTER = ['ignore']     # the caller's own process-wide warnings action while the call runs (none of the solver's business)


CALLER_ERRSTATES = [None, None, None, 'ignore', 'warn', 'raise',
                    # ... and states that treat the kinds of fault differently (the solver may not mix them up or leave them changed)
                    {'over': 'ignore', 'invalid': 'raise', 'divide': 'warn'}, {'over': 'raise', 'invalid': 'ignore', 'divide': 'ignore'}, {'over': 'warn', 'invalid': 'ignore', 'divide': 'raise'}]


LEAKS = []      # (NumPy error state before a call, after it) whenever a call left it changed


def errstate_context(es):
    import contextlib
    if not es:
        return contextlib.nullcontext()
    return np.errstate(**es) if isinstance(es, dict) else np.errstate(all=es)

CALLER_ERRSTATE = [None]       # the caller's own NumPy floating-point error handling (np.seterr / np.errstate) while the call runs


def call(f, *a, **k):
    import contextlib
    with warnings.catch_warnings(), errstate_context(CALLER_ERRSTATE[0]):
        warnings.simplefilter(CALLER_FILTER[0])
        before = dict(np.geterr())
        try:
            return ('ret', f(*a, **k))
        except BaseException as e:  # noqa: BLE001
            return ('exc', type(e).__name__, type(e.__cause__).__name__ if e.__cause__ is not None else None)
        finally:
            if dict(np.geterr()) != before:
                LEAKS.append((before, dict(np.geterr())))


def twin(ctx, Model, spec, scripts, opts, a, b, a_label, b_label, case):
    """A: solve(start, end); B: loop over the reference period list."""
    from .common import h64
    CALLER_FILTER[0] = CALLER_FILTERS[h64(['wf', case]) % len(CALLER_FILTERS)]    # both sides run under the same caller-side warnings action
    CALLER_ERRSTATE[0] = CALLER_ERRSTATES[h64(['es', case]) % len(CALLER_ERRSTATES)]       # ... and the same NumPy error state
    try:
        return _twin(ctx, Model, spec, scripts, opts, a, b, a_label, b_label, case)
    finally:
        CALLER_FILTER[0] = 'ignore'
        CALLER_ERRSTATE[0] = None
        if LEAKS:
            ctx.violation('process-wide-state-changed', f'a solve call left the caller\'s NumPy error state changed: {LEAKS[0][0]} -> {LEAKS[0][1]}', case)
            del LEAKS[:]


def _twin(ctx, Model, spec, scripts, opts, a, b, a_label, b_label, case):
    n = spec.n
    tol = 0.5      # size of the scripted moves (the solver's own `tol` is an option like any other)
    A = make(Model, spec, scripts, tol)
    B = make(Model, spec, scripts, tol)
    kw = {}
    if a is not None:
        kw['start'] = a_label
    if b is not None:
        kw['end'] = b_label
    lo = 0 if a is None else a
    hi = n - 1 if b is None else b
    periods = list(range(lo, hi + 1))
    # the period iterator solve() is built on is public too: (position, label) pairs of exactly the periods to visit, with a length
    it = call(lambda: A.iter_periods(**kw))
    if it[0] == 'ret':
        ctx.count('period_iterators_checked')
        pairs = list(it[1])
        span_list = list(A.span)
        if [p for p, _ in pairs] != periods or not all(lab == span_list[p] for p, lab in pairs) or len(it[1]) != len(periods) or list(it[1]) != pairs:
            ctx.violation('iter-periods', f'iter_periods({kw}) yields {pairs[:8]} (len() = {len(it[1])}); the periods from start to end inclusive are {periods}', case)
            return
    ra = call(A.solve, **kw, **opts)
    if opts.get('min_iter', 0) > opts.get('max_iter', 100):
        rb = ('exc', 'ValueError', None)
    else:
        flags = []
        rb = None
        for p in periods:
            r = call(B.solve_t, p, **opts)
            if r[0] == 'exc':
                rb = r
                break
            flags.append(r[1])
        if rb is None:
            span_list = list(B.span)
            rb = ('ret', ([span_list[p] for p in periods], periods, flags))
    ctx.count('twin_runs_compared')
    ctx.count('periods_solved', len(periods))
    sa, sb = snapshot(A), snapshot(B)
    if ra[0] != rb[0] or (ra[0] == 'exc' and ra[1:] != rb[1:]):
        ctx.violation('solve-vs-loop-outcome', f'solve({kw}, {opts}) -> {ra}; loop of solve_t over {periods} -> {rb}', case)
        return
    if ra[0] == 'ret':
        la, ia, fa = ra[1]
        lb, ib, fb = rb[1]
        same_labels = len(la) == len(lb) and all(x == y for x, y in zip(la, lb))
        if not (same_labels and list(ia) == list(ib) and list(fa) == list(fb)):
            ctx.violation('solve-return-triple', f'solve({kw}) returned {(list(la), list(ia), list(fa))}; the ordered loop gives {(lb, ib, fb)}', case)
            return
        if not all(type(i) is int for i in ia):
            ctx.count('positions_not_python_int')
    if not state_equal(sa, sb):
        ctx.violation('solve-vs-loop-state', f'solve({kw}, {opts}) and the ordered loop of solve_t end in different states: {sorted(scripted.changed_cells(sa, sb))[:8]}', case)
        return
    # "with the same options": every hook and pass of solve() received the keyword arguments the single-period loop's did
    if A.__dict__['v_log'] != B.__dict__['v_log']:
        la, lb = A.__dict__['v_log'], B.__dict__['v_log']
        k = next((i for i, (x, y) in enumerate(zip(la, lb)) if x != y), min(len(la), len(lb)))
        ctx.violation('solve-vs-loop-hook-arguments', f'solve({kw}, {opts}): hook/pass #{k} was {la[k] if k < len(la) else None}; in the ordered loop of solve_t it is {lb[k] if k < len(lb) else None}', case)
        return
    ctx.count('hook_logs_compared')
    # order: hooks must have run in span order
    order_a = [x[1] for x in A.__dict__['v_log'] if x[0] == 'before']
    if order_a != sorted(order_a) or (ra[0] == 'ret' and order_a != periods):
        ctx.violation('solve-order', f'solve() visited periods in order {order_a}, expected {periods}', case)


def option_set(rng):
    o = dict(min_iter=rng.choice([0, 0, 1, 2]), max_iter=rng.choice([1, 3, 6, 6]), tol=rng.choice([0.5, 0.5, 0.5, 1e-10, math.nan, math.inf, 0.0, -1.0, np.float64(0.5)]),
             failures=rng.choice(['raise', 'ignore', 'ignore']), errors=rng.choice(['raise', 'skip', 'ignore', 'replace']),
             catch_first_error=rng.choice([True, False]))
    if rng.random() < 0.2:
        o['offset'] = rng.choice([-1, 1, -2])
    if rng.random() < 0.05:
        o['min_iter'] = o['max_iter'] + 1
    if rng.random() < 0.3:
        o[rng.choice(['note', 'scenario', 'label', 'index', 'name', 'verbose', 'key'])] = rng.choice([7, 'x', None, 0])    # a user keyword: forwarded to every hook and pass
    if rng.random() < 0.3:
        # options left out: each entry point then falls back on its own default, and "the same options" includes those
        for k in rng.sample(['min_iter', 'max_iter', 'tol', 'failures', 'errors', 'catch_first_error'], rng.randint(1, 6)):
            if k == 'max_iter' and o.get('min_iter', 0) > 100:
                continue
            o.pop(k, None)
    return o


def run_shard(ctx):
    Model = scripted.make_model_class()
    rng = ctx.rng('c05')
    lens = ctx.pick([3, 4, 5], [2, 3, 4, 5, 6, 7])
    si = 0
    for n in lens:
      for history in (False, True):
        for spec in spans.catalogue(n):
            si += 1
            if not ctx.mine(si):
                continue
            HISTORY['other'] = None
            if history:
                others = [o for o in spans.catalogue(n + 1, origin=2) + spans.catalogue(max(n - 1, 1), origin=-1) + spans.catalogue(n, origin=1) + spans.catalogue(n, origin=2) if o.kind == spec.kind]
                if not others:
                    continue
                HISTORY['other'] = others[(si + ctx.seed) % len(others)]
                ctx.count('reindexed_history_specs')
            ctx.seen('span_kinds', spec.kind)
            labels = [spec.labels[i] for i in range(n)]
            # ---- all (start, end) pairs, random scripts/options ----------------------------
            pairs = [(None, None)] + [(a, None) for a in range(n)] + [(None, b) for b in range(n)] + [(a, b) for a in range(n) for b in range(n)]
            for a, b in pairs:
                for rep in range(ctx.pick(2, 3)):
                    opts = option_set(rng)
                    scripts = random_scripts(rng, n)
                    if rng.random() < 0.3:
                        # a numerical fault or an exception somewhere along the way: both sides stop (or carry on) at the same point,
                        # in the same state - the failing period's values included
                        scripts = random_scripts(rng, n, rng.randrange(n), rng.choice(['warn', 'warn', 'nan', 'pinf', 'exc']))
                    ai = None if a is None else rng.randrange(len(labels[a]))
                    bi = None if b is None else rng.randrange(len(labels[b]))
                    al = None if a is None else labels[a][ai]
                    bl = None if b is None else labels[b][bi]
                    if (al is None and a is not None) or (bl is None and b is not None):
                        continue
                    case = dict(kind='twin', span_kind=spec.kind, n=n, start=a, end=b, start_alt=ai, end_alt=bi, start_label=repr(al), end_label=repr(bl), opts=opts,
                                scripts={str(k): v for k, v in scripts.items()})
                    ctx.evaluation(case, nontrivial=True, sample=case)
                    twin(ctx, Model, spec, scripts, opts, a, b, al, bl, case)
            # ---- solve_period(label) == solve_t(pos(label)) -------------------------------
            for i in range(n):
                for lab in labels[i]:
                    if lab is None:
                        continue
                    for rep in range(4):
                        opts = option_set(rng)
                        # half of the twins solve a period that faults, so that every forwarded option matters
                        scripts = random_scripts(rng, n, i, rng.choice(['warn', 'nan', 'pinf', 'exc', 'nonconv'])) if rep % 2 else random_scripts(rng, n)
                        case = dict(span_kind=spec.kind, n=n, period=i, label=repr(lab), opts=opts, scripts={str(k): v for k, v in scripts.items()})
                        ctx.evaluation(case, nontrivial=True, sample=case)
                        A = make(Model, spec, scripts, 0.5)
                        B = make(Model, spec, scripts, 0.5)
                        ra = call(A.solve_period, lab, **opts)
                        rb = call(B.solve_t, i, **opts)
                        ctx.count('solve_period_twins')
                        if ra == rb and A.__dict__['v_log'] != B.__dict__['v_log']:
                            ctx.violation('solve-period-hook-arguments', f'solve_period({lab!r}, {opts}) hooks/passes saw {A.__dict__["v_log"][:2]}; solve_t({i}) {B.__dict__["v_log"][:2]}', case)
                        if ra != rb or not state_equal(snapshot(A), snapshot(B)):
                            ctx.violation('solve-period-vs-solve-t', f'solve_period({lab!r}) -> {ra}; solve_t({i}) -> {rb} on {spec.kind}', case)
            # ---- label errors: nothing solved, KeyError ---------------------------------------
            bad = list(spec.absent) + list(spec.group_labels)
            for lab in bad:
                if lab is None:
                    continue
                for where in ('start', 'end', 'period', 'start+', 'end+'):
                    scripts = random_scripts(rng, n)
                    A = make(Model, spec, scripts, 0.5)
                    before = snapshot(A)
                    case = dict(span_kind=spec.kind, n=n, bad_label=repr(lab), where=where)
                    ctx.evaluation(case, nontrivial=True)
                    if where == 'period':
                        r = call(A.solve_period, lab, failures='ignore')
                    elif where.endswith('+'):
                        # ... with a perfectly good label at the other end (each end is looked up on its own)
                        good = spec.labels[0][0] if where == 'end+' else spec.labels[-1][0]
                        if good is None:
                            continue
                        ctx.count('label_errors_with_a_good_other_end')
                        r = call(A.solve, **{where[:-1]: lab, ('start' if where == 'end+' else 'end'): good}, failures='ignore')
                    else:
                        r = call(A.solve, **{where: lab}, failures='ignore')
                    ctx.count('label_errors_checked')
                    multi = lab in spec.group_labels and spec.group_labels[lab][0] != spec.group_labels[lab][1]
                    single = lab in spec.group_labels and not multi
                    if single:
                        continue   # a group label covering one position may legitimately resolve to it
                    if r[0] != 'exc' or r[1] != 'KeyError':
                        ctx.violation('label-error-class', f'{where}={lab!r} ({"multi-position" if multi else "unknown"} label) on {spec.kind}: expected KeyError, got {r}', case)
                    elif not state_equal(before, snapshot(A)) or A.__dict__['v_log']:
                        ctx.violation('label-error-after-solving', f'{where}={lab!r} raised KeyError after solving something: log {A.__dict__["v_log"][:3]}', case)
            # ---- single fault at every period, every policy ---------------------------------
            for q in range(n):
                for fault in ('exc', 'excse', 'nan', 'pinf', 'warn', 'nonconv', 'after-exc'):
                    for errors in ('raise', 'skip', 'ignore', 'replace'):
                        for failures in ('raise', 'ignore'):
                            if ctx.quick and rng.random() < 0.5:
                                continue
                            cfe = rng.choice([True, False])
                            opts = dict(min_iter=rng.choice([0, 0, 1, 2, 3]), max_iter=5, tol=0.5, failures=failures, errors=errors, catch_first_error=cfe)
                            scripts = random_scripts(rng, n, q, fault if fault != 'after-exc' else 'small-then-same')
                            for p in range(n):
                                if p != q:
                                    scripts[p] = [('small', 'same')]   # converges at pass 1 or 2
                            case = dict(kind='fault', span_kind=spec.kind, n=n, fault=fault, at=q, opts=opts, scripts={str(k): v for k, v in scripts.items()})
                            ctx.evaluation(case, nontrivial=True, sample=case)
                            ctx.count('faults_injected')
                            fault_case(ctx, Model, spec, scripts, opts, q, fault, case)
    HISTORY['other'] = None
    repeated_labels(ctx, Model)
    empty_span(ctx, Model)
    no_variables(ctx)
    parser_models(ctx)


def fault_case(ctx, Model, spec, scripts, opts, q, fault, case):
    n = spec.n
    A = make(Model, spec, scripts, 0.5)
    clean = make(Model, spec, scripts, 0.5)
    if fault == 'after-exc':
        A.__dict__['v_after_fault_by_t'] = {q: 'exc'}       # period q converges, then its post-solution hook raises
    pristine = snapshot(clean)
    r = call(A.solve, **opts)
    # the twin solves the earlier periods one by one
    for p in range(q):
        call(clean.solve_t, p, **opts)
    sa, sc = snapshot(A), snapshot(clean)
    errors, failures = opts['errors'], opts['failures']
    raises = (fault in ('exc', 'excse', 'after-exc')) or (fault in ('nan', 'pinf', 'warn') and errors == 'raise') or (fault == 'nonconv' and failures == 'raise')
    st = ''.join(sa['status'])
    # earlier periods complete and equal to the single-period twin
    for name in sa:
        for p in range(q):
            x, y = sa[name][p], sc[name][p]
            if not (x == y or (isinstance(x, float) and math.isnan(x) and math.isnan(y))):
                ctx.violation('earlier-period-lost', f'fault {fault} at period {q}: {name}[{p}] = {x!r}, a completed single-period solve gives {y!r}', case)
                return
    if st[:q] != '.' * q:
        ctx.violation('earlier-period-lost', f'fault {fault} at period {q}: statuses {st}', case)
        return
    if raises:
        want_exc = 'NonConvergenceError' if fault == 'nonconv' else 'SolutionError'
        if r[0] != 'exc' or r[1] != want_exc:
            ctx.violation('fault-not-surfaced', f'fault {fault} at period {q} under errors={errors}, failures={failures}: expected {want_exc}, got {r}', case)
            return
        # later periods untouched
        for name in sa:
            for p in range(q + 1, n):
                x, y = sa[name][p], pristine[name][p]
                if not (x == y or (isinstance(x, float) and math.isnan(x) and math.isnan(y))):
                    ctx.violation('later-period-touched', f'fault {fault} at period {q} raised, but {name}[{p}] changed from {y!r} to {x!r}', case)
                    return
        # (an exception of the solver's own class raised inside a pass - by a helper model solved there, say - is an exception inside a pass)
        want_status = {'exc': 'E' if errors == 'raise' else None, 'excse': 'E' if errors == 'raise' else None, 'nonconv': 'F', 'after-exc': None}.get(fault, 'E')
        if fault == 'after-exc' and st[q] == '.' and (sa['status'][q], sa['iterations'][q]) != (pristine['status'][q], pristine['iterations'][q]):
            # '.' is what a period carries when its solve returned True; this one raised from its post-solution hook
            ctx.violation('failing-period-status', f'the post-solution hook of period {q} raised, yet the period is newly recorded as solved (status ".", iterations {sa["iterations"][q]})', case)
        if want_status is not None and st[q] != want_status:
            ctx.violation('failing-period-status', f'fault {fault} at period {q} under errors={errors}: status {st[q]!r}, the policy prescribes {want_status!r}', case)
    else:
        if r[0] != 'ret':
            ctx.violation('fault-not-contained', f'fault {fault} at period {q} under errors={errors}, failures={failures}: expected solve() to continue, got {r}', case)
            return
        want_q = 'F' if fault == 'nonconv' else ('S' if errors == 'skip' else '.')
        want = '.' * q + want_q + '.' * (n - q - 1)
        if st != want or list(r[1][2]) != [c == '.' for c in want]:
            ctx.violation('failing-period-status', f'fault {fault} at period {q} under errors={errors}, failures={failures}: statuses {st} flags {r[1][2]}, expected {want}', case)


def repeated_labels(ctx, Model):
    """Spans in which a label occurs twice (NumPy arrays, pandas indexes): naming it as start / end / period does not
    resolve to a single position -> KeyError before anything is solved; the unique labels still work."""
    import pandas as pd
    spans_ = [('ndarray[int] repeated', lambda: np.array([1990, 1991, 1991, 1992, 1993]), 1991, 1992, 3),
              ('ndarray[str] repeated', lambda: np.array(['a', 'b', 'c', 'b', 'd']), 'b', 'c', 2),
              ('pd.Index[int] repeated', lambda: pd.Index([5, 6, 6, 7]), 6, 7, 3),
              ('pd.Index[str] repeated unsorted', lambda: pd.Index(['x', 'y', 'z', 'x']), 'x', 'z', 2),
              ('pd.PeriodIndex repeated', lambda: pd.PeriodIndex(['2000', '2001', '2001', '2002'], freq='Y'), pd.Period('2001', freq='Y'), pd.Period('2002', freq='Y'), 3)]
    for k, (kind, make_span, dup, unique, upos) in enumerate(spans_):
        if not ctx.mine(k):
            continue
        for where in ('start', 'end', 'period'):
            m = Model(make_span(), tol=0.5, X=1.0)
            m.__dict__['v_scripts_by_t'] = {}
            before = snapshot(m)
            case = dict(span_kind=kind, bad_label=repr(dup), where=where)
            ctx.evaluation(case, nontrivial=True)
            r = call(m.solve_period, dup, failures='ignore') if where == 'period' else call(m.solve, **{where: dup}, failures='ignore')
            ctx.count('label_errors_checked')
            ctx.count('repeated_label_requests')
            if r[0] != 'exc' or r[1] != 'KeyError':
                ctx.violation('label-error-class', f'{where}={dup!r} occurs twice in the span ({kind}): expected KeyError, got {r}', case)
            elif not state_equal(before, snapshot(m)) or m.__dict__['v_log']:
                ctx.violation('label-error-after-solving', f'{where}={dup!r} raised KeyError after solving something', case)
        # a run whose ends are unique labels passes *through* the repeated one: solve() goes by position from start to end, visiting
        # each period once, like the ordered loop of solve_t()
        for span_f in (make_span, lambda: list(make_span())):
            A, B = Model(span_f(), tol=0.5, X=1.0), Model(span_f(), tol=0.5, X=1.0)
            n_ = len(A.span)
            for obj in (A, B):
                obj.__dict__['v_scripts_by_t'] = {p: [('small', 'same')] for p in range(n_)}
            first, last = list(A.span)[0], list(A.span)[-1]
            if list(A.span).count(first) != 1 or list(A.span).count(last) != 1:
                continue
            ra = call(A.solve, start=first, end=last, failures='ignore')
            rb = [call(B.solve_t, p, failures='ignore') for p in range(n_)]
            ctx.count('twin_runs_compared')
            visited = [x[1] for x in A.__dict__['v_log'] if x[0] == 'before']
            if ra[0] != 'ret' or visited != list(range(n_)) or list(A.status) != list(B.status) or list(ra[1][1]) != list(range(n_)):
                ctx.violation('solve-vs-loop-outcome', f'solve(start={first!r}, end={last!r}) over {type(A.span).__name__} {list(A.span)} (a label repeated inside the range): -> {str(ra)[:160]}, visited {visited}, statuses {list(A.status)}; '
                                                       f'the ordered loop of solve_t gives statuses {list(B.status)}', dict(span_kind=kind, through_repeated=True))
        m = Model(make_span(), tol=0.5, X=1.0)
        m.__dict__['v_scripts_by_t'] = {}
        r = call(m.solve_period, unique, failures='ignore')
        if r[0] != 'ret' or [x[1] for x in m.__dict__['v_log'] if x[0] == 'before'] != [upos]:
            ctx.violation('solve-period-vs-solve-t', f'solve_period({unique!r}) on {kind}: {r}, visited {[x[1] for x in m.__dict__["v_log"] if x[0] == "before"]}, expected position {upos}', dict(span_kind=kind, label=repr(unique)))


def empty_span(ctx, Model):
    from fsic.exceptions import SolutionError
    import pandas as pd
    for k, span in enumerate([[], range(0), np.array([]), pd.Index([]), ()]):
        if not ctx.mine(k):
            continue
        ctx.evaluation(('empty', k), nontrivial=True)
        try:
            m = Model(span)
        except Exception as e:
            ctx.count('empty_span_not_constructible')
            continue
        r = call(m.solve)
        ctx.count('label_errors_checked')
        if r[0] != 'exc' or r[1] != 'SolutionError':
            ctx.violation('empty-span', f'solve() on an empty span ({type(span).__name__}): expected SolutionError, got {r}', {'kind': 'empty', 'span': repr(span)})


def no_variables(ctx):
    """Objects with periods but no variables of their own (a class built from an empty or comments-only script, a hand-written
    model that works through its hooks, a linker without variables): an *empty span* is what raises SolutionError - here solve()
    visits every period, like the ordered loop of solve_t()."""
    import fsic
    log = []

    class Hooks(fsic.BaseModel):
        def solve_t_before(self, t, **kw):
            log.append(('before', t))

        def solve_t_after(self, t, **kw):
            log.append(('after', t))

    makers = {'empty-script': lambda span: fsic.build_model(fsic.parse_model(''))(span),
              'comments-only': lambda span: fsic.build_model(fsic.parse_model('# nothing yet\n'))(span),
              'hooks-only': lambda span: Hooks(span),
              'linker-without-variables': lambda span: fsic.BaseLinker({'a': fsic.build_model([])(span)})}
    for k, (kind, mk) in enumerate(makers.items()):
        if not ctx.mine(k):
            continue
        for span in (range(4), ['a', 'b', 'c'], np.arange(2000, 2003), (5,)):
            case = dict(kind='no-variables', model=kind, span=repr(span))
            ctx.evaluation(case, nontrivial=True, sample=case)
            A, B = mk(span), mk(span)
            del log[:]
            ra = call(A.solve)
            la = list(log)
            del log[:]
            flags = [call(B.solve_t, p) for p in range(len(span))]
            ctx.count('twin_runs_compared')
            want = ('ret', (list(span), list(range(len(span))), [f[1] if f[0] == 'ret' else f for f in flags]))
            ok = ra[0] == 'ret' and [list(ra[1][0]), list(ra[1][1]), list(ra[1][2])] == [want[1][0], want[1][1], want[1][2]] and la == list(log) and \
                list(A.status) == list(B.status) and list(A.iterations) == list(B.iterations)
            if not ok:
                ctx.violation('solve-vs-loop-outcome', f'{kind} over {span!r} (periods, no variables): solve() -> {ra}, statuses {list(A.status)}; the ordered loop of solve_t -> {want}, statuses {list(B.status)}', case)


def parser_models(ctx):
    """Defaults with lags and leads: first period with enough lags through last with enough leads."""
    import fsic
    rng = ctx.rng('c05-parser')
    scripts = ['Y = 0.5 * Y[-1] + X', 'Y = 0.5 * Y[-2] + X[1]', 'C = 0.5 * Y\nY = C + G[-1] + G[+2]', 'Y = X']
    for k, script in enumerate(scripts):
        if not ctx.mine(k):
            continue
        Model = fsic.build_model(fsic.parse_model(script), with_type_hints=(k % 2 == 0))
        L, D = Model.LAGS, Model.LEADS
        for n in range(L + D + 1, L + D + ctx.pick(4, 7)):
            for spec in spans.catalogue(n)[:: ctx.pick(3, 1)]:
                data = {nm: np.arange(1.0, n + 1) * (j + 1) for j, nm in enumerate(Model.NAMES)}
                A = Model(spec.make(), **data)
                B = Model(spec.make(), **data)
                opts = dict(max_iter=rng.choice([2, 50]), failures='ignore', tol=1e-8)
                case = dict(kind='parser-default-range', script=script, span_kind=spec.kind, n=n, opts=opts)
                ctx.evaluation(case, nontrivial=True, sample=case)
                ra = call(A.solve, **opts)
                periods = list(range(L, n - D))
                flags = [call(B.solve_t, p, **opts) for p in periods]
                ctx.count('twin_runs_compared')
                ok = ra[0] == 'ret' and list(ra[1][1]) == periods and list(ra[1][2]) == [f[1] for f in flags] and \
                    all(x == y for x, y in zip(ra[1][0], [list(B.span)[p] for p in periods]))
                if not ok or not state_equal(snapshot(A), snapshot(B)):
                    ctx.violation('default-range-vs-loop', f'{script!r} on {spec.kind} n={n}: solve() -> {ra}; loop over {periods} -> {flags}', case)
                    continue
                # explicit (start, end) pairs, including periods that cannot accommodate the lags / leads: still the ordered
                # sequence of single-period solves - the feasible periods before an infeasible one are solved, then it raises
                pairs = [(a, b) for a in range(n) for b in range(n)]
                for a, b in rng.sample(pairs, min(len(pairs), ctx.pick(6, 16))):
                    A = Model(spec.make(), **data)
                    B = Model(spec.make(), **data)
                    al, bl = spec.labels[a][0], spec.labels[b][0]
                    if al is None or bl is None:
                        continue
                    case = dict(kind='parser-explicit-range', script=script, span_kind=spec.kind, n=n, start=a, end=b, opts=opts)
                    ctx.evaluation(case, nontrivial=True, sample=case)
                    ra = call(A.solve, start=al, end=bl, **opts)
                    rb, fl = None, []
                    for p in range(a, b + 1):
                        r = call(B.solve_t, p, **opts)
                        if r[0] == 'exc':
                            rb = r
                            break
                        fl.append(r[1])
                    if rb is None:
                        rb = ('ret', ([list(B.span)[p] for p in range(a, b + 1)], list(range(a, b + 1)), fl))
                    ctx.count('twin_runs_compared')
                    same_outcome = ra[0] == rb[0] and (ra[1:] == rb[1:] if ra[0] == 'exc' else (list(ra[1][1]) == rb[1][1] and list(ra[1][2]) == rb[1][2]))
                    if not same_outcome:
                        ctx.violation('solve-vs-loop-outcome', f'{script!r} on {spec.kind} n={n}: solve(start={al!r}, end={bl!r}) -> {ra}; loop of solve_t over {list(range(a, b + 1))} -> {rb}', case)
                    elif not state_equal(snapshot(A), snapshot(B)):
                        ctx.violation('solve-vs-loop-state', f'{script!r} on {spec.kind} n={n}: solve(start={al!r}, end={bl!r}) -> {ra[:2]} leaves a different state from the loop of solve_t: '
                                      f'{sorted(scripted.changed_cells(snapshot(A), snapshot(B)))[:6]}', case)


def replay(ctx, case):
    Model = scripted.make_model_class()
    specs = [x for x in spans.catalogue(case.get('n', 4)) if x.kind == case.get('span_kind')]
    if not specs or case.get('kind') not in ('twin', 'fault'):
        ctx.inconclusive_because('only twin and fault cases carry a full replay description; re-run the shard with the same VERIF_SEED')
        return
    spec = specs[0]
    scripts = {int(k): [tuple(p) for p in v] for k, v in case['scripts'].items()}
    ctx.evaluation(case, nontrivial=True)
    if case['kind'] == 'twin':
        a, b = case['start'], case['end']
        al = None if a is None else spec.labels[a][case['start_alt']]
        bl = None if b is None else spec.labels[b][case['end_alt']]
        twin(ctx, Model, spec, scripts, case['opts'], a, b, al, bl, case)
    else:
        fault_case(ctx, Model, spec, scripts, case['opts'], case['at'], case['fault'], case)
