"""gfortran builds of the *unchanged* generated Fortran source and a ctypes shim that
exposes evaluate / solve_t / solve with f2py's calling convention (hidden dimension
arguments, Fortran-ordered copies, arguments passed verbatim - no index adjustment), so
that the real FortranEngine wrapper is the code under test.

Flavours:  'check' = -O0 -g -fcheck=all (every subscript checked: exact)
           'asan'  = -O0 -g -fsanitize=address,undefined (needs libasan preloaded)

Both flavours compile without optimisation on purpose: the property is about the *generated source*, and the gfortran in this
image (12.2.0) miscompiles `exp(-(-abs(x)))` to 1.0 at -O1 and above (reproduced with a 10-line program independent of fsic;
DESIGN.md section 9), which an optimised build would turn into a false alarm about fsic."""
import ctypes
import os
import pickle
import subprocess
import sys
import tempfile

import numpy as np

FLAGS = {
    'check': ['-O0', '-g', '-fcheck=all', '-ffpe-summary=none'],
    'asan': ['-O0', '-g', '-fsanitize=address,undefined', '-fno-sanitize-recover=all', '-ffpe-summary=none'],
    'plain': ['-O2'],
}
c_int, c_dbl = ctypes.c_int, ctypes.c_double


def preload_env():
    out = {}
    libs = []
    for lib in ('libasan.so', 'libubsan.so'):
        p = subprocess.run(['gcc', f'-print-file-name={lib}'], capture_output=True, text=True).stdout.strip()
        if p and os.path.sep in p and os.path.exists(p):
            libs.append(os.path.realpath(p))
    if libs:
        out['LD_PRELOAD'] = ':'.join(libs)
        out['ASAN_OPTIONS'] = 'detect_leaks=0:halt_on_error=1:abort_on_error=1:allocator_may_return_null=1'
        out['UBSAN_OPTIONS'] = 'halt_on_error=1:print_stacktrace=1'
    return out


def compile_source(src, workdir, name, flavour):
    f = os.path.join(workdir, name + '.f95')
    so = os.path.join(workdir, f'{name}-{flavour}.so')
    with open(f, 'w') as fh:
        fh.write(src)
    r = subprocess.run(['gfortran', '-shared', '-fPIC', '-J', workdir] + FLAGS[flavour] + ['-o', so, f], capture_output=True, text=True, cwd=workdir)
    if r.returncode:
        return None, (r.stderr or r.stdout)[-1500:]
    return so, None


def make_engine(so):
    lib = ctypes.CDLL(so)
    P = lambda x: x.ctypes.data_as(ctypes.c_void_p)  # noqa: E731
    R = ctypes.byref

    class Engine:
        @staticmethod
        def evaluate(initial_values, t):
            a = np.asfortranarray(initial_values, dtype=np.float64)
            nrows, ncols = a.shape
            out = np.empty_like(a, order='F')
            ec = c_int(-99)
            lib.evaluate_(P(a), R(c_int(int(t))), P(out), R(ec), R(c_int(nrows)), R(c_int(ncols)))
            return out, ec.value

        @staticmethod
        def solve_t(initial_values, t, min_iter, max_iter, tol, offset, convergence_variables, error_control):
            a = np.asfortranarray(initial_values, dtype=np.float64)
            nrows, ncols = a.shape
            out = np.empty_like(a, order='F')
            cv = np.ascontiguousarray(convergence_variables, dtype=np.int32)
            conv, it, ec = c_int(0), c_int(-99), c_int(-99)
            lib.solve_t_(P(a), R(c_int(int(t))), R(c_int(int(min_iter))), R(c_int(int(max_iter))), R(c_dbl(float(tol))), R(c_int(int(offset))),
                         P(cv), R(c_int(int(error_control))), P(out), R(conv), R(it), R(ec), R(c_int(nrows)), R(c_int(ncols)), R(c_int(len(cv))))
            return out, conv.value, it.value, ec.value

        @staticmethod
        def solve(initial_values, indexes, min_iter, max_iter, tol, offset, convergence_variables, failure_control, error_control):
            a = np.asfortranarray(initial_values, dtype=np.float64)
            nrows, ncols = a.shape
            out = np.empty_like(a, order='F')
            cv = np.ascontiguousarray(convergence_variables, dtype=np.int32)
            idx = np.ascontiguousarray(indexes, dtype=np.int32)
            npd = len(idx)
            conv = np.zeros(npd, dtype=np.int32)
            its = np.zeros(npd, dtype=np.int32)
            ecs = np.zeros(npd, dtype=np.int32)
            lib.solve_(P(a), P(idx), R(c_int(int(min_iter))), R(c_int(int(max_iter))), R(c_dbl(float(tol))), R(c_int(int(offset))), P(cv),
                       R(c_int(int(failure_control))), R(c_int(int(error_control))), P(out), P(conv), P(its), P(ecs),
                       R(c_int(nrows)), R(c_int(ncols)), R(c_int(len(cv))), R(c_int(npd)))
            return out, conv.astype(bool), its, ecs

    return Engine


def isolated(fn, *args, timeout=120):
    """Run fn(*args) in a forked child so that a Fortran runtime abort / sanitizer report
    kills only the child.  Returns ('ok', result) | ('crash', exit status, stderr tail) | ('timeout',)."""
    rfd, wfd = os.pipe()
    errfile = tempfile.NamedTemporaryFile(prefix='fsicverif-stderr-', delete=False)
    pid = os.fork()
    if pid == 0:
        try:
            os.close(rfd)
            os.dup2(errfile.fileno(), 2)
            res = fn(*args)
            with os.fdopen(wfd, 'wb') as w:
                pickle.dump(res, w)
            os._exit(0)
        except BaseException as e:  # noqa: BLE001
            try:
                os.write(2, f'harness child exception: {type(e).__name__}: {e}\n'.encode())
            finally:
                os._exit(97)
    os.close(wfd)
    data = b''
    with os.fdopen(rfd, 'rb') as r:
        data = r.read()
    _, status = os.waitpid(pid, 0)
    err = ''
    try:
        with open(errfile.name, errors='replace') as f:
            err = f.read()[-2500:]
    finally:
        errfile.close()
        os.unlink(errfile.name)
    if os.WIFEXITED(status) and os.WEXITSTATUS(status) == 0 and data:
        return ('ok', pickle.loads(data), err)
    code = os.WEXITSTATUS(status) if os.WIFEXITED(status) else -os.WTERMSIG(status)
    return ('crash', code, err)
