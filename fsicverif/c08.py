"""C08 - the linker solves its submodels jointly and consistently.

Monitor: a scripted linker and scripted submodels share one call log (every hook and
every submodel pass with its iteration number); check values of the linker and of every
selected submodel are recorded by the harness after every iteration, and the movement at
the moment "solved" is declared is *measured* from those recordings and compared with
tol.  A reference machine predicts status, iteration counts, pass counts and stamps.
A linker wrapping a single parser-built model is compared with solving that model
directly (twin run)."""
import itertools
import math
import warnings

import numpy as np

from . import scripted
from .c05 import call

PROPERTY = 'C08'
LEVEL = 'exploration'
RULE = ('linkers over 0..4 scripted submodels (outcome scripts of length <= 4 per submodel and for the linker\'s own check '
        'variable), every subset and several orders for submodels=, min_iter/max_iter/tol/failures lattice, offsets in and out of '
        'span, unknown ids, differing spans, differing lags/leads; twin run linker({m}) vs m for parser-built models. '
        'non-trivial = distinct (scripts, selection, options) case with at least one submodel')
ASSUMPTIONS = ['a selection refused for an unknown id is refused as a whole: KeyError is raised before any value is seeded from t+offset (iteration counters are not asserted)',
               '"pre-hook" / "post-hook" of an iteration are evaluate_t_before / evaluate_t_after; solve_t_before / solve_t_after run once per period',
               'a non-finite check variable has not "moved by less than tol" (NaN / inf differences never count as converged); no errors= policy is asserted for linkers']
ANCHORS = [('fsic/core/linkers.py', 'BaseLinker.__init__'), ('fsic/core/linkers.py', 'BaseLinker.solve_t'),
           ('fsic/core/linkers.py', 'BaseLinker.evaluate_t'), ('fsic/core/linkers.py', 'BaseLinker.solve')]
REQUIRED_COUNTERS = {'runs_compared': 500, 'iterations_observed': 1000, 'declared_solved_movements_measured': 100, 'single_model_twins': 20}
LEVEL_TEXT = ('Scripted-workload monitor with a shared call log and per-iteration recording of all check values; the movement at '
              'declaration is measured, not inferred; reference machine for status/iteration stamps; twin run for the single-model case.')
LEVEL_NOTE = 'Trusted: scripted outcome workload and the small reference machine in this module.'
TECHNIQUE = 'scripted linker/submodels + shared call log + measured convergence movement + twin run (runtime monitor)'
OUTS = ['same', 'small', 'eq', 'big']


def nshards(tier):
    return 16


_CL = None


def classes():
    global _CL
    if _CL is not None:
        return _CL
    import fsic
    Sub = scripted.make_model_class()

    class ScriptedLinker(fsic.BaseLinker):
        ENDOGENOUS = ['L']
        EXOGENOUS = ['Q']
        NAMES = ENDOGENOUS + EXOGENOUS
        CHECK = ENDOGENOUS

        def __init__(self, *a, lscript=(), tol=0.5, **k):
            super().__init__(*a, **k)
            d = self.__dict__
            d['v_lscript'] = list(lscript)
            d['v_tol'] = tol
            d['v_log'] = []
            d['v_checks'] = []

        def solve_t_before(self, t, **kw):
            self.__dict__['v_log'].append(('solve_before', kw.get('iteration'), tuple(kw.get('submodels') or ())))

        def solve_t_after(self, t, **kw):
            self.__dict__['v_log'].append(('solve_after', kw.get('iteration'), tuple(kw.get('submodels') or ())))

        def evaluate_t_before(self, t, **kw):
            self.__dict__['v_log'].append(('eval_before', kw.get('iteration'), tuple(kw.get('submodels') or ())))

        def evaluate_t_after(self, t, *, iteration=None, submodels=None, **kw):
            d = self.__dict__
            d['v_log'].append(('eval_after', iteration, tuple(submodels or ())))
            s = d['v_lscript']
            o = s[iteration - 1] if iteration - 1 < len(s) else 'same'
            val = scripted.apply_outcome(float(d['_L'][t]), o, d['v_tol'])
            if (d.get('v_write_mode') or 'inplace') == 'inplace':
                d['_L'][t] = val
            else:
                # the same assignment through a whole-series write (a Python sequence replaces the stored array)
                series = [float(v) for v in d['_L']]
                series[t] = float(val)
                self.L = series
            # record every check value after this iteration
            snap = {'_': [float(d['_L'][t])]}
            for key, sm in d['submodels'].items():
                snap[key] = [float(sm.A[t]), float(sm.B[t])]
            d['v_checks'].append((iteration, snap))

    _CL = (Sub, ScriptedLinker)
    return _CL


def build(case):
    Sub, Linker = classes()
    n = case['n']
    if 'write_mode' not in case:
        from .common import h64
        case['write_mode'] = scripted.WRITE_MODES[h64(['wm', case]) % len(scripted.WRITE_MODES)]
    subs = {}
    shared = []
    for key, script in case['subs'].items():
        m = Sub(range(n), script=[tuple(p) for p in script], tol=case['tol'], X=1.0)
        for i in range(n):
            m.A[i] = 1.0 + i
            m.B[i] = -1.0 - i

        def make_eval(m=m, key=key, orig=m._evaluate):
            def _evaluate(t, **kw):
                shared.append(('sub', kw.get('iteration'), key))
                return orig(t, **kw)
            return _evaluate
        m.__dict__['_evaluate'] = make_eval()
        m.__dict__['v_write_mode'] = case['write_mode']
        subs[key] = m
    linker = Linker(subs, lscript=case['lscript'], tol=case['tol'], Q=1.0)
    linker.__dict__['v_write_mode'] = case['write_mode']
    linker.__dict__['v_log'] = shared
    for i in range(len(linker.span)):
        linker.L[i] = 5.0 * i
    return linker, subs


def reference(case):
    """Expected outcome from the scripts alone."""
    sel = case['selected'] if case['selected'] is not None else list(case['subs'])
    tol, t = case['tol'], case['t']
    vals = {'_': [5.0 * t]}
    for key in case['subs']:
        vals[key] = [1.0 + t, -1.0 - t]
    off = case.get('offset', 0)
    if off:
        vals['_'] = [5.0 * (t + off)]
        for key in sel:
            vals[key] = [1.0 + t + off, -1.0 - (t + off)]
    k = 0
    for k in range(1, case['max_iter'] + 1):
        prev = {kk: list(v) for kk, v in vals.items()}
        for key in sel:
            script = case['subs'][key]
            pair = script[k - 1] if k - 1 < len(script) else ('same', 'same')
            vals[key] = [scripted.apply_outcome(vals[key][0], pair[0], tol), scripted.apply_outcome(vals[key][1], pair[1], tol)]
        o = case['lscript'][k - 1] if k - 1 < len(case['lscript']) else 'same'
        vals['_'] = [scripted.apply_outcome(vals['_'][0], o, tol)]
        if k < case['min_iter']:
            continue
        judged = ['_'] + list(sel)
        if all(abs(a - b) < tol for kk in judged for a, b in zip(vals[kk], prev[kk])):
            return dict(status='.', iterations=k, vals=vals, sel=sel)
    return dict(status='F', iterations=case['max_iter'], vals=vals, sel=sel)


def run_case(ctx, case):
    linker, subs = build(case)
    n, t = case['n'], case['t']
    if case.get('unselected_nan') and case['selected'] is not None:
        # a submodel left out of the selection takes no part at all: whatever its check variables hold (NaN included) is not looked at
        for key, m in subs.items():
            if key not in case['selected']:
                m.A[t] = math.nan
                m.B[t] = math.inf
    before = {key: scripted.snapshot_model(m) for key, m in subs.items()}
    kw = dict(min_iter=case['min_iter'], max_iter=case['max_iter'], tol=case['tol'], failures=case['failures'])
    if case['selected'] is not None:
        kw['submodels'] = list(case['selected'])
    if case.get('offset'):
        kw['offset'] = case['offset']
    from . import c05
    from .common import h64
    if 'caller_filter' not in case:
        case['caller_filter'] = c05.CALLER_FILTERS[h64(['wf', case]) % len(c05.CALLER_FILTERS)]
    c05.CALLER_FILTER[0] = case['caller_filter']
    try:
        r = call(linker.solve_t, t, **kw)
    finally:
        c05.CALLER_FILTER[0] = 'ignore'
    ctx.count('runs_compared')
    if case['selected'] is not None and kw['submodels'] != list(case['selected']):
        ctx.violation('argument-mutated', f'solve_t changed the caller\'s `submodels` list from {list(case["selected"])} to {kw["submodels"]}', case)
        return
    want = reference(case)
    sel = want['sel']
    log = linker.__dict__['v_log']
    checks = linker.__dict__['v_checks']
    iters = [x for x in log if x[0] == 'eval_before']
    ctx.count('iterations_observed', len(iters))
    # ---- outcome ------------------------------------------------------------------------
    if want['status'] == '.':
        ok = r == ('ret', True)
    elif case['failures'] == 'raise':
        ok = r[0] == 'exc' and r[1] == 'NonConvergenceError'
    else:
        ok = r == ('ret', False)
    if not ok:
        mech = 'linker-outcome'
        ctx.violation(mech, f'expected status {want["status"]} after {want["iterations"]} iteration(s), got {r}; linker status {linker.status[t]!r} iterations {linker.iterations[t]}', case)
        _measure(ctx, case, linker, checks, sel)
        return
    # ---- stamps --------------------------------------------------------------------------
    if str(linker.status[t]) != want['status'] or int(linker.iterations[t]) != want['iterations']:
        ctx.violation('linker-stamp', f'linker status/iterations {linker.status[t]!r}/{linker.iterations[t]}, expected {want["status"]!r}/{want["iterations"]}', case)
        return
    for key, m in subs.items():
        if key in sel:
            if str(m.status[t]) != want['status'] or int(m.iterations[t]) != want['iterations']:
                ctx.violation('submodel-stamp', f'selected submodel {key!r}: status/iterations {m.status[t]!r}/{m.iterations[t]}, linker has {want["status"]!r}/{want["iterations"]}', case)
                return
            got = [float(m.A[t]), float(m.B[t])]
            if not all(scripted.feq(a, b) for a, b in zip(got, want['vals'][key])):
                ctx.violation('submodel-values', f'selected submodel {key!r}: values {got}, expected {want["vals"][key]}', case)
                return
        else:
            if scripted.changed_cells(before[key], scripted.snapshot_model(m)):
                ctx.violation('unselected-submodel-touched', f'unselected submodel {key!r} changed: {sorted(scripted.changed_cells(before[key], scripted.snapshot_model(m)))}', case)
                return
    if not scripted.feq(float(linker.L[t]), want['vals']['_'][0]):
        ctx.violation('linker-values', f'linker L[t] = {float(linker.L[t])}, expected {want["vals"]["_"][0]}', case)
        return
    # other periods untouched
    for key, m in subs.items():
        ch = {c for c in scripted.changed_cells(before[key], scripted.snapshot_model(m)) if c[1] != t}
        if ch:
            ctx.violation('foreign-period-touched', f'submodel {key!r} changed outside period {t}: {sorted(ch)}', case)
            return
    # ---- call order ----------------------------------------------------------------------
    exp = [('solve_before', 0, tuple(sel))]
    for k in range(1, want['iterations'] + 1):
        exp.append(('eval_before', k, tuple(sel)))
        exp.extend(('sub', k, key) for key in sel)
        exp.append(('eval_after', k, tuple(sel)))
    if want['status'] == '.':
        exp.append(('solve_after', want['iterations'], tuple(sel)))
    if log != exp:
        ctx.violation('linker-call-order', f'call log {log[:12]}..., expected {exp[:12]}...', case)
        return
    _measure(ctx, case, linker, checks, sel)


def _measure(ctx, case, linker, checks, sel):
    """Measured movement between the last two iterations when 'solved' was declared."""
    t = case['t']
    if str(linker.status[t]) != '.' or not checks:
        return
    start = {'_': [5.0 * (t + case.get('offset', 0))]}
    last = checks[-1][1]
    prev = checks[-2][1] if len(checks) > 1 else None
    if prev is None:
        return
    move = max(abs(a - b) for kk in ['_'] + list(sel) for a, b in zip(last[kk], prev[kk]))
    ctx.count('declared_solved_movements_measured')
    if not move < case['tol']:
        ctx.violation('declared-solved-while-moving', f'period declared solved after iteration {checks[-1][0]} although a check variable moved by {move} >= tol {case["tol"]}', case)
    if checks[-1][0] < case['min_iter']:
        ctx.violation('declared-solved-before-min-iter', f'declared solved at iteration {checks[-1][0]} < min_iter {case["min_iter"]}', case)


def run_shard(ctx):
    Sub, Linker = classes()
    rng = ctx.rng('c08')
    count = ctx.pick(1000, 20000)
    for i in range(count):
        k = rng.choice([0, 1, 1, 2, 2, 3, 4])
        keys = rng.sample(['a', 'b', 'c', 'd', 5, ('x', 1)], k)
        subs = {}
        for key in keys:
            L = rng.randrange(0, 4)
            subs[key] = [[rng.choice(OUTS), rng.choice(['same', 'same', 'small', 'big'])] for _ in range(L)]
            if rng.random() < 0.12 and subs[key]:
                # a check variable that turns non-finite (and possibly heals): NaN / inf "movement" is never "less than tol"
                j = rng.randrange(len(subs[key]))
                subs[key][j][rng.randrange(2)] = rng.choice(['nan', 'pinf', 'ninf', 'warn'])    # 'warn': -inf out of a warning-raising NumPy operation
                if rng.random() < 0.5 and j + 1 < len(subs[key]):
                    subs[key][j + 1] = ['zero', 'zero']
        tol = rng.choice([0.5, 0.5, 1e-10, 1e-4])
        sel = None
        if keys and rng.random() < 0.6:
            sel = rng.sample(keys, rng.randrange(0, len(keys) + 1))
        case = dict(n=4, t=rng.choice([0, 1, 2, 3]), subs={repr(k2) if not isinstance(k2, str) else k2: v for k2, v in subs.items()},
                    lscript=[rng.choice(OUTS + (['nan', 'pinf'] if rng.random() < 0.1 else [])) for _ in range(rng.randrange(0, 3))], tol=tol, selected=None,
                    min_iter=rng.choice([0, 0, 1, 2, 3]), max_iter=rng.choice([0, 1, 2, 4, 6]), failures=rng.choice(['raise', 'ignore']))
        # keys must survive JSON: use their repr as the actual key
        keymap = {k2: (repr(k2) if not isinstance(k2, str) else k2) for k2 in keys}
        if sel is not None:
            case['selected'] = [keymap[x] for x in sel]
            if len(sel) < len(keys) and rng.random() < 0.3:
                case['unselected_nan'] = True
        if rng.random() < 0.15:
            case['offset'] = rng.choice([-1, 1])
            if not 0 <= case['t'] + case['offset'] < case['n']:
                case['offset'] = -case['offset']
        ctx.evaluation(case, nontrivial=bool(keys), sample=case)
        if not keys:
            # a linker without submodels has an empty span: it constructs, reports no lags/leads and cannot solve
            lk = Linker({})
            r = call(lk.solve)
            if (lk.LAGS, lk.LEADS, len(lk.span)) != (0, 0, 0) or not (r[0] == 'exc' and r[1] == 'SolutionError'):
                ctx.violation('empty-linker', f'empty linker: LAGS/LEADS/span {(lk.LAGS, lk.LEADS, len(lk.span))}, solve() -> {r}', case)
            continue
        run_case(ctx, case)
    structural(ctx)
    single_model_twin(ctx)
    solve_versus_loop(ctx)


def structural(ctx):
    """Construction-time clauses, unknown ids, offsets out of span."""
    import fsic
    from fsic.exceptions import InitialisationError
    Sub, Linker = classes()
    # lags / leads maxima over parser-built submodels
    scripts = ['Y = X', 'Y = Y[-1] + X', 'Y = X[-3] + X[2]', 'Y = X[1]', 'Y = X[-2]']
    models = [fsic.build_model(fsic.parse_model(s)) for s in scripts]
    idx = 0
    for r in range(0, 4):
        for combo in itertools.combinations(range(len(models)), r):
            idx += 1
            if not ctx.mine(idx):
                continue
            ctx.evaluation(('lags-leads', combo), nontrivial=True)
            want = (max([models[i].LAGS for i in combo] + [0]), max([models[i].LEADS for i in combo] + [0]))
            # the submodels are built over equal spans - separate span objects, or one and the same object handed to all of
            # them - and in either insertion order
            shared_list, shared_range = list(range(12)), range(12)
            for how, span_of in (('separate', lambda: range(12)), ('one-list-object', lambda: shared_list), ('one-range-object', lambda: shared_range), ('separate-lists', lambda: list(range(12)))):
                for order in (combo, combo[::-1]):
                    subs = {f'm{i}': models[i](span_of()) for i in order}
                    lk = fsic.BaseLinker(subs)
                    ctx.count('structural_checks')
                    if (lk.LAGS, lk.LEADS) != want or (lk.lags, lk.leads) != want:
                        ctx.violation('linker-lags-leads', f'linker over {[scripts[i] for i in order]} ({how} spans): LAGS/LEADS {(lk.LAGS, lk.LEADS)}, lags/leads {(lk.lags, lk.leads)}, expected {want}', {'kind': 'lags-leads', 'combo': list(order), 'spans': how})
                        continue
                    if combo:
                        got = call(lk.solve, max_iter=3, failures='ignore')
                        if got[0] == 'ret' and list(got[1][1]) != list(range(want[0], 12 - want[1])):
                            ctx.violation('linker-default-range', f'linker default range {got[1][1]}, expected {list(range(want[0], 12 - want[1]))} ({how} spans)', {'kind': 'lags-leads', 'combo': list(order), 'spans': how})
    # differing spans
    for k, (s1, s2) in enumerate([(range(5), range(6)), (range(5), range(1, 6)), (['a', 'b'], ['a', 'c']), (range(3), [0, 1, 2])]):
        if not ctx.mine(k):
            continue
        ctx.evaluation(('spans', k), nontrivial=True)
        ctx.count('structural_checks')
        r = call(lambda: fsic.BaseLinker({'x': models[0](s1), 'y': models[0](s2)}))
        same = list(s1) == list(s2) and type(s1) is type(s2)
        if list(s1) != list(s2) and not (r[0] == 'exc' and r[1] == 'InitialisationError'):
            ctx.violation('differing-spans-accepted', f'submodels with spans {s1} / {s2}: expected InitialisationError, got {r}', {'kind': 'spans', 'k': k})
    # identical spans of every supported type are accepted (and the linker solves)
    from . import spans as _spans
    for k, spec in enumerate(_spans.catalogue(5)):
        if not ctx.mine(k):
            continue
        ctx.evaluation(('same-spans', spec.kind), nontrivial=True)
        ctx.count('structural_checks')
        r = call(lambda: fsic.BaseLinker({'x': models[1](spec.make()), 'y': models[0](spec.make()), 'z': models[1](spec.make())}).solve(failures='ignore', max_iter=3))
        if r[0] != 'ret' or list(r[1][1]) != [1, 2, 3, 4]:
            ctx.violation('identical-spans-rejected', f'three submodels with identical {spec.kind} spans: expected a linker that solves positions 1..4, got {r}', {'kind': 'same-spans', 'span_kind': spec.kind})
    # submodel ids that are different objects with the same text (1 and '1', a tuple and its repr): every selected submodel's check
    # variables count, whichever of them is the slow one
    Sub, Linker = classes()
    for k, (ida, idb) in enumerate([(1, '1'), ('1', 1), (('x', 1), "('x', 1)"), ("('x', 1)", ('x', 1)), (None, 'None'), ('None', None), (2.5, '2.5'), ('True', True)]):
        if not ctx.mine(k):
            continue
        for slow_first in (True, False):
            slow = [('big', 'same'), ('big', 'same'), ('big', 'same')]
            scripts = (slow, []) if slow_first else ([], slow)
            models = []
            for script in scripts:
                m = Sub(range(4), script=script, tol=0.5, X=1.0)
                models.append(m)
            linker = Linker({ida: models[0], idb: models[1]}, lscript=[], tol=0.5, Q=1.0)
            case = {'kind': 'look-alike-ids', 'ids': [repr(ida), repr(idb)], 'slow_first': slow_first}
            ctx.evaluation(('look-alike-ids', repr(ida), repr(idb), slow_first), nontrivial=True, sample=case)
            ctx.count('structural_checks')
            r = call(linker.solve_t, 1, tol=0.5, max_iter=10, failures='ignore')
            got = (r, str(linker.status[1]), int(linker.iterations[1]), [int(m.iterations[1]) for m in models], [str(m.status[1]) for m in models])
            if got != (('ret', True), '.', 4, [4, 4], ['.', '.']):
                ctx.violation('declared-solved-while-moving', f'submodels {ida!r} and {idb!r} ({"first" if slow_first else "second"} one moving by 2.0 > tol on passes 1-3): '
                              f'expected solved at iteration 4 on the linker and both submodels, got {got}', case)
    # unknown submodel id
    for k, bad in enumerate(['zz', 0, None.__class__, ('a',)]):
        if not ctx.mine(k):
            continue
        case = dict(n=4, t=1, subs={'a': [], 'b': []}, lscript=[], tol=0.5, selected=None, min_iter=0, max_iter=3, failures='raise')
        linker, subs = build(case)
        ctx.evaluation(('unknown-id', repr(bad)), nontrivial=True)
        ctx.count('structural_checks')
        r = call(linker.solve_t, 1, submodels=['a', bad])
        if not (r[0] == 'exc' and r[1] == 'KeyError'):
            ctx.violation('unknown-submodel-id', f'submodels=["a", {bad!r}]: expected KeyError, got {r}', {'kind': 'unknown-id', 'id': repr(bad)})
        elif any(x[0] == 'sub' for x in linker.__dict__['v_log']):
            ctx.violation('unknown-submodel-id', 'a submodel was evaluated although the selection contains an unknown id', {'kind': 'unknown-id', 'id': repr(bad)})
        # ... with an offset as well, wherever the unknown id stands in the selection: the selection is refused as a whole, so no
        # value of the linker or of any submodel has been seeded from t+offset by the time KeyError is raised
        for sel in (['a', bad], [bad, 'a'], ['a', 'b', bad], [bad]):
            for off in (-1, 1, 2):
                linker, subs = build(case)
                vals = lambda: {key: {nm: m[nm].tolist() for nm in ('A', 'B', 'X')} for key, m in subs.items()} | {'_': {'L': linker.L.tolist(), 'Q': linker.Q.tolist()}}   # noqa: E731
                before = vals()
                ctx.count('structural_checks')
                r = call(linker.solve_t, 1, submodels=list(sel), offset=off)
                if not (r[0] == 'exc' and r[1] == 'KeyError'):
                    ctx.violation('unknown-submodel-id', f'submodels={sel!r}, offset={off}: expected KeyError, got {r}', {'kind': 'unknown-id', 'id': repr(bad), 'offset': off})
                elif vals() != before:
                    ch = [(k, nm) for k in before for nm in before[k] if before[k][nm] != vals()[k][nm]]
                    ctx.violation('unknown-submodel-id', f'submodels={sel!r}, offset={off}: KeyError raised after values were seeded from t+offset: changed {ch}', {'kind': 'unknown-id', 'id': repr(bad), 'offset': off})
    # offsets out of span raise IndexError and change nothing
    for k, (t, off) in enumerate([(0, -1), (3, 1), (1, -2), (2, 5), (-1, 1), (-4, -1)]):
        if not ctx.mine(k):
            continue
        case = dict(n=4, t=t, subs={'a': [['big', 'same']], 'b': []}, lscript=['big'], tol=0.5, selected=None, min_iter=0, max_iter=3, failures='ignore')
        linker, subs = build(case)
        before = {key: scripted.snapshot_model(m) for key, m in subs.items()}
        lb = scripted.snapshot_model(linker)
        ctx.evaluation(('offset-out', t, off), nontrivial=True)
        ctx.count('structural_checks')
        r = call(linker.solve_t, t, offset=off, failures='ignore', max_iter=3)
        changed = any(scripted.changed_cells(before[key], scripted.snapshot_model(m)) for key, m in subs.items()) or scripted.changed_cells(lb, scripted.snapshot_model(linker))
        if not (r[0] == 'exc' and r[1] == 'IndexError'):
            ctx.violation('linker-offset-out-of-span', f'solve_t({t}, offset={off}) on 4 periods: expected IndexError, got {r}', {'kind': 'offset-out', 't': t, 'offset': off})
        elif changed:
            ctx.violation('linker-offset-out-of-span', f'solve_t({t}, offset={off}) raised IndexError after changing state', {'kind': 'offset-out', 't': t, 'offset': off})


def solve_versus_loop(ctx):
    """linker.solve(submodels=sel, ...) over several periods == the ordered loop of linker.solve_t(t, submodels=sel, ...): same
    return values, same call log, same state of the linker and of every submodel - for every kind of selection, the empty one
    (linker only) and None (all) included."""
    rng = ctx.rng('c08-loop')
    for i in range(ctx.pick(150, 3000)):
        keys = rng.sample(['a', 'b', 'c', 'd'], rng.choice([1, 2, 2, 3]))
        subs = {k: [[rng.choice(OUTS), rng.choice(['same', 'small', 'big'])] for _ in range(rng.randrange(0, 4))] for k in keys}
        sel = rng.choice([None, [], (), list(keys), keys[:1], list(reversed(keys)), rng.sample(keys, rng.randrange(0, len(keys) + 1))])
        case = dict(kind='solve-vs-loop', n=4, t=0, subs=subs, lscript=[rng.choice(OUTS) for _ in range(rng.randrange(0, 3))], tol=0.5,
                    selected=None if sel is None else list(sel), selected_type=type(sel).__name__, min_iter=rng.choice([0, 0, 1, 2]), max_iter=rng.choice([1, 2, 4, 6]), failures='ignore')
        ctx.evaluation(case, nontrivial=True, sample=case)
        kw = dict(min_iter=case['min_iter'], max_iter=case['max_iter'], tol=0.5, failures='ignore')
        if sel is not None:
            kw['submodels'] = sel
        if kw['min_iter'] > kw['max_iter']:
            kw['min_iter'] = kw['max_iter']      # (what a linker does with min_iter > max_iter is not part of the statement)
        if rng.random() < 0.3:
            kw.pop(rng.choice(['min_iter', 'max_iter', 'tol']))
        (A, subs_a), (B, subs_b) = build(dict(case)), build(dict(case))
        ra = call(A.solve, **kw)
        flags = []
        rb = None
        for t in range(case['n']):
            r = call(B.solve_t, t, **kw)
            if r[0] != 'ret':
                rb = r
                break
            flags.append(r[1])
        if rb is None:
            rb = ('ret', (list(B.span), list(range(case['n'])), flags))
        ctx.count('linker_solve_versus_loop_runs')
        same_ret = ra[0] == rb[0] and (ra[0] != 'ret' or (list(ra[1][0]) == rb[1][0] and list(ra[1][1]) == rb[1][1] and list(ra[1][2]) == rb[1][2]))
        if not same_ret:
            ctx.violation('linker-solve-vs-loop', f'solve({kw}) -> {ra}; the ordered loop of solve_t -> {rb}', case)
            continue
        diff = {key: sorted(scripted.changed_cells(scripted.snapshot_model(subs_a[key]), scripted.snapshot_model(subs_b[key]))) for key in subs_a}
        diff['_'] = sorted(scripted.changed_cells(scripted.snapshot_model(A), scripted.snapshot_model(B)))
        if any(diff.values()):
            ctx.violation('linker-solve-vs-loop', f'solve({kw}) and the ordered loop of solve_t leave different states: {dict((k, v[:4]) for k, v in diff.items() if v)}', case)
        elif A.__dict__['v_log'] != B.__dict__['v_log']:
            la, lb = A.__dict__['v_log'], B.__dict__['v_log']
            k = next((j for j, (x, y) in enumerate(zip(la, lb)) if x != y), min(len(la), len(lb)))
            ctx.violation('linker-solve-vs-loop', f'solve({kw}): call #{k} was {la[k] if k < len(la) else None}; in the ordered loop of solve_t it is {lb[k] if k < len(lb) else None}', case)


def labelled_twin(ctx):
    """The single-model twin over time-index spans, with periods named the way such spans allow (date / period strings): the
    linker's own span is of the submodels' span type, so the same labels name the same periods."""
    import fsic
    import pandas as pd
    Model = fsic.build_model(fsic.parse_model('Y = 0.5 * Y[-1] + X\nZ = 0.9 * Z[0] + Y'))
    kinds = {'pd.PeriodIndex[Y]': (lambda: pd.period_range(start='2000', periods=8, freq='Y'), '2002', '2005', '2006'),
             'pd.PeriodIndex[Q]': (lambda: pd.period_range(start='2000Q1', periods=8, freq='Q'), '2000Q3', '2001Q2', '2001Q4'),
             'pd.DatetimeIndex[D]': (lambda: pd.date_range(start='2001-02-27', periods=8, freq='D'), '2001-02-28', '2001-03-03', '2001-03-05'),
             'list[str]': (lambda: [f'p{i}' for i in range(8)], 'p2', 'p5', 'p6'),
             'ndarray[int64]': (lambda: np.arange(1990, 1998), 1992, 1995, 1996)}
    for k, (kind, (mk, a_, b_, c_)) in enumerate(kinds.items()):
        if not ctx.mine(k):
            continue
        a, b = Model(mk(), X=2.0), Model(mk(), X=2.0)
        linker = fsic.BaseLinker({'only': b})
        case = dict(kind='labelled-twin', span_kind=kind)
        ctx.evaluation(case, nontrivial=True, sample=case)
        ctx.count('single_model_twins')
        if type(linker.span) is not type(b.span) or list(linker.span) != list(b.span):
            ctx.violation('single-model-linker-differs', f'the linker over a {type(b.span).__name__} span has a {type(linker.span).__name__} span', case)
            continue
        ra = [call(a.solve, start=a_, end=b_, failures='ignore', max_iter=50), call(a.solve_period, c_, failures='ignore', max_iter=50)]
        rb = [call(linker.solve, start=a_, end=b_, failures='ignore', max_iter=50), call(linker.solve_period, c_, failures='ignore', max_iter=50)]
        diff = scripted.changed_cells(scripted.snapshot_model(a), scripted.snapshot_model(b))
        if repr(ra) != repr(rb) or diff:
            ctx.violation('single-model-linker-differs', f'{kind}: solve(start={a_!r}, end={b_!r}) / solve_period({c_!r}) directly -> {str(ra)[:200]}; via the linker -> {str(rb)[:200]}; differing cells {sorted(diff)[:6]}', case)


def single_model_twin(ctx):
    """A linker wrapping one model and adding no equations == the model solved directly."""
    import fsic
    labelled_twin(ctx)
    rng = ctx.rng('c08-twin')
    scripts = ['Y = C + G\nC = {c} * Y[0]', 'Y = 0.5 * Y[-1] + X\nZ = 0.9 * Z[0] + Y', 'x = {a} * y + 1\ny = {b} * x[0] + 2',
               'H = H[-1] + YD - C\nYD = Y - T\nT = {theta} * Y\nY = C + G\nC = {a1} * YD + {a2} * H[-1]',
               # variables named like members of the model object (a method, a property, a NumPy-style attribute)
               # transient numerical warnings (a division by a not-yet-computed zero, a logarithm of zero) that heal on the next pass
               'X = Z / Y\nY = W', 'L = log(K)\nK = 0.5 * K[0] + G\nM = L + 1',
               # a model without equations (a data holder): one pass per iteration all the same, and the linker's stamps
               '', '# data only\n',
               'size = 0.5 * size[-1] + copy\ncopy = 0.9 * copy[0] + X', 'T = C + values\nC = {c} * T[0]\nvalues = 0.25 * T[-1] + eval', 'solve = {a} * reindex + 1\nreindex = {b} * solve[0] + 2']
    for k, script in enumerate(scripts):
        if not ctx.mine(k):
            continue
        Model = fsic.build_model(fsic.parse_model(script))
        for rep in range(ctx.pick(20, 200)):
            n = 6
            data = {}
            for nm in Model.NAMES:
                if nm not in Model.ENDOGENOUS:
                    data[nm] = rng.choice([0.2, 0.5, 0.6, 0.8]) if nm in Model.PARAMETERS else rng.choice([1.0, 10.0, 20.0])
            opts = dict(tol=rng.choice([1e-10, 1e-6, 1e-3, 0.5]), max_iter=rng.choice([5, 50, 500]), min_iter=rng.choice([0, 0, 2]), failures='ignore')
            if rng.random() < 0.2:
                opts['offset'] = -1
            if 'log(' in script or '/ Y' in script:
                # 'ignore' is the one policy under which model and linker agree by construction (a non-finite difference is never
                # "less than tol"); 'replace' / 'skip' / 'raise' are model-level policies the linker does not implement and the
                # statement's option lattice (min_iter / max_iter / tol / failures) does not include
                opts['errors'] = 'ignore'
            from . import c05
            caller_filter = rng.choice(c05.CALLER_FILTERS)
            a = Model(range(n), **data)
            b = Model(range(n), **data)
            linker = fsic.BaseLinker({'only': b})
            case = dict(kind='single-twin', script=script, data=data, opts=opts, caller_filter=caller_filter)
            ctx.evaluation(case, nontrivial=True, sample=case)
            c05.CALLER_FILTER[0] = caller_filter
            try:
                if 'offset' in opts:
                    ra = call(a.solve, start=a.span[max(Model.LAGS, 1)], **opts)
                    rb = call(linker.solve, start=a.span[max(Model.LAGS, 1)], **opts)
                else:
                    ra = call(a.solve, **opts)
                    rb = call(linker.solve, **opts)
            finally:
                c05.CALLER_FILTER[0] = 'ignore'
            ctx.count('single_model_twins')
            diff = scripted.changed_cells(scripted.snapshot_model(a), scripted.snapshot_model(b))
            if ra != rb or diff:
                it_a, it_b = a.iterations.tolist(), b.iterations.tolist()
                ctx.violation('single-model-linker-differs', f'{script!r} {opts}: direct -> {ra}, iterations {it_a}; via linker -> {rb}, iterations {it_b}; differing cells {sorted(diff)[:6]}', case)
            elif list(linker.status) != list(a.status) or list(linker.iterations) != list(a.iterations):
                ctx.violation('single-model-linker-differs', f'linker stamps {linker.status.tolist()}/{linker.iterations.tolist()} differ from the model\'s {a.status.tolist()}/{a.iterations.tolist()}', case)


def replay(ctx, case):
    if case.get('kind'):
        ctx.inconclusive_because('structural / twin cases: re-run the shard with the same VERIF_SEED')
        return
    ctx.evaluation(case, nontrivial=True)
    run_case(ctx, case)
