"""bin/check entry point: shard a property's workload over worker processes, merge
what the monitors observed, classify violations against known_findings.json, write
evidence/<id>.json and decide the three-valued verdict.

exit 0: held on everything observed (KNOWN-FINDING lines allowed)
exit 1: at least one `VIOLATION property=<id> replay=<path>` line
exit 2: inconclusive (monitor never reached, worker crashed or watchdog fired)"""
import argparse
import importlib
import json
import os
import shutil
import subprocess
import sys
import tempfile
import time

import numpy as np

from . import common

WATCHDOG = {'quick': 900, 'thorough': 5400}


def load_known():
    path = os.path.join(common.VERIF_ROOT, 'known_findings.json')
    try:
        data = json.load(open(path))
    except FileNotFoundError:
        return {}
    out = {}
    for f in data.get('findings', []):
        out[(f['property'], f['key'])] = f
    return out


def main(argv=None):
    ap = argparse.ArgumentParser()
    ap.add_argument('prop')
    ap.add_argument('--tier', default=os.environ.get('VERIF_TIER', 'quick'), choices=['quick', 'thorough'])
    ap.add_argument('--seed', type=int, default=int(os.environ.get('VERIF_SEED', '0') or 0))
    ap.add_argument('--replay')
    ap.add_argument('--jobs', type=int, default=int(os.environ.get('VERIF_JOBS', '0') or 0))
    ap.add_argument('--no-evidence', action='store_true')
    args = ap.parse_args(argv)
    prop = args.prop.upper()
    t0 = time.time()

    common.use_repo()
    mod = importlib.import_module('fsicverif.' + prop.lower())
    if hasattr(mod, 'setup'):
        mod.setup()
    nshards = 1 if args.replay else int(mod.nshards(args.tier))
    jobs = args.jobs or min(16, os.cpu_count() or 4)
    work = tempfile.mkdtemp(prefix=f'fsicverif-{prop}-')
    env = dict(os.environ)
    env['PYTHONHASHSEED'] = '0'
    env['PYTHONDONTWRITEBYTECODE'] = '1'
    env['PYTHONPATH'] = common.VERIF_ROOT + os.pathsep + env.get('PYTHONPATH', '')
    env['FSICVERIF_WORK'] = work
    env.update(getattr(mod, 'WORKER_ENV', {}))
    if hasattr(mod, 'worker_env'):
        env.update(mod.worker_env())
    deadline = WATCHDOG[args.tier]

    procs = {}
    pending = list(range(nshards))
    results = {}
    problems = []
    try:
        while pending or procs:
            while pending and len(procs) < jobs:
                s = pending.pop(0)
                out = os.path.join(work, f'shard{s}')
                cmd = [sys.executable, '-m', 'fsicverif.worker', prop, args.tier, str(args.seed), str(s), str(nshards), out]
                if args.replay:
                    cmd.append(os.path.abspath(args.replay))
                log = open(out + '.log', 'w')
                env_s = env
                if hasattr(mod, 'shard_env'):
                    env_s = dict(env)
                    env_s.update(mod.shard_env(s, args.tier))
                procs[s] = (subprocess.Popen(cmd, env=env_s, stdout=log, stderr=subprocess.STDOUT, cwd=common.VERIF_ROOT), time.time(), log, out)
            time.sleep(0.05)
            for s, (p, started, log, out) in list(procs.items()):
                rc = p.poll()
                if rc is None:
                    if time.time() - started > deadline:
                        p.kill()
                        p.wait()
                        log.close()
                        del procs[s]
                        problems.append(f'shard {s}: watchdog fired after {deadline}s')
                    continue
                log.close()
                del procs[s]
                tail = open(out + '.log', errors='replace').read()[-3000:]
                if rc != 0 or not os.path.exists(out + '.json'):
                    problems.append(f'shard {s}: worker exited {rc}: {tail}')
                    continue
                r = json.load(open(out + '.json'))
                r['hashes'] = np.load(out + '.npy')
                if r.get('crashed'):
                    problems.append(f'shard {s}: harness exception: {r["crashed"]}')
                results[s] = r
    finally:
        for s, (p, *_rest) in procs.items():
            p.kill()

    # ---- merge -------------------------------------------------------------------
    evaluations = sum(r['evaluations'] for r in results.values())
    hashes = np.unique(np.concatenate([r['hashes'] for r in results.values()])) if results else np.array([], dtype=np.uint64)
    counters = {}
    seen = {}
    samples = []
    viol = {}
    viol_counts = {}
    inconclusive = list(problems)
    anchor_hit = set()
    for s in sorted(results):
        r = results[s]
        for k, v in r['counters'].items():
            counters[k] = counters.get(k, 0) + v
        for k, v in r['seen'].items():
            seen.setdefault(k, set()).update(v)
        for x in r['samples']:
            if len(samples) < 8:
                samples.append(x)
        for k, lst in r['violations'].items():
            viol.setdefault(k, []).extend(lst)
        for k, n in r['violation_counts'].items():
            viol_counts[k] = viol_counts.get(k, 0) + n
        inconclusive.extend(r['inconclusive'])
        anchor_hit.update(tuple(x) for x in r['anchor_lines_hit'])

    required = getattr(mod, 'REQUIRED_COUNTERS', {})
    if not args.replay:
        for k, n in required.items():
            if counters.get(k, 0) < n:
                inconclusive.append(f'monitor counter {k}={counters.get(k, 0)} below the minimum {n}: deciding monitor not reached')
        if evaluations == 0:
            inconclusive.append('no evaluations recorded')

    # ---- classify ---------------------------------------------------------------
    known = load_known()
    lines = []
    n_viol = 0
    n_known = 0
    replay_dir = os.path.join(common.VERIF_ROOT, 'replays')
    for mech in sorted(viol):
        entry = known.get((prop, mech)) if mech else None
        if entry is not None and entry.get('status') == 'known':
            n_known += viol_counts.get(mech, 0)
            lines.append(f'KNOWN-FINDING: property={prop} {mech}: {entry["what"]} (observed {viol_counts.get(mech, 0)}x, e.g. {json.dumps(viol[mech][0]["case"])[:300]})')
            continue
        os.makedirs(replay_dir, exist_ok=True)
        for v in viol[mech][:3]:
            n_viol += 1
            path = os.path.join(replay_dir, f'{prop}-{common.h64(v["case"]):016x}.json')
            with open(path, 'w') as f:
                json.dump({'property': prop, 'mechanism': mech or None, 'what': v['what'], 'case': v['case']}, f, indent=1)
            note = ''
            if entry is not None and entry.get('status') == 'fixed':
                note = f' (regression of a finding recorded as fixed in {entry.get("commit")})'
            lines.append(f'VIOLATION property={prop} replay={path}')
            lines.append(f'  mechanism={mech or "unclassified"}{note} count={viol_counts.get(mech, 0)} what={v["what"][:600]}')

    # ---- evidence ---------------------------------------------------------------
    wall = time.time() - t0
    anchors = common.resolve_anchors(getattr(mod, 'ANCHORS', []))
    from .worker import executable_lines
    total_lines = set()
    for rel, a, b in anchors:
        for ln in executable_lines(os.path.join(common.REPO, rel), a, b):
            total_lines.add((rel, ln))
    coverage = {
        'evaluations': int(evaluations),
        'distinct_nontrivial': int(len(hashes)),
        'rule': getattr(mod, 'RULE', ''),
        'samples': samples if samples else [],
        'exhaustive': bool(getattr(mod, 'EXHAUSTIVE', {}).get(args.tier, False)),
        'monitor_events': counters,
        'distinct_outcomes_seen': {k: sorted(v)[:60] for k, v in seen.items()},
        'distinct_outcomes_count': {k: len(v) for k, v in seen.items()},
        'anchor_lines_hit': len(anchor_hit & total_lines) if total_lines else len(anchor_hit),
        'anchor_lines_total': len(total_lines),
        'anchor_lines_missed': sorted([f'{r}:{l}' for r, l in (total_lines - anchor_hit)])[:80],
        'known_finding_observations': {k: viol_counts[k] for k in viol_counts if (prop, k) in known and known[(prop, k)].get('status') == 'known'},
        'shards': nshards,
        'verdict': 'violated' if n_viol else ('inconclusive' if inconclusive else 'held-on-observed'),
        'inconclusive_reasons': [x[:500] for x in inconclusive][:10],
        'repo': common.REPO,
    }
    if hasattr(mod, 'evidence_extra'):
        coverage.update(mod.evidence_extra(args.tier, counters, viol_counts))
    evidence = {
        'property_id': prop,
        'tier': args.tier,
        'seed': int(args.seed),
        'level': getattr(mod, 'LEVEL', 'exploration'),
        'coverage': coverage,
        'assumptions': list(getattr(mod, 'ASSUMPTIONS', [])),
        'wall_s': round(wall, 2),
        'violations': int(n_viol),
    }
    if not args.replay and not args.no_evidence:
        os.makedirs(os.path.join(common.VERIF_ROOT, 'evidence'), exist_ok=True)
        with open(os.path.join(common.VERIF_ROOT, 'evidence', f'{prop}.json'), 'w') as f:
            json.dump(evidence, f, indent=1, sort_keys=False)
            f.write('\n')

    shutil.rmtree(work, ignore_errors=True)

    for ln in lines:
        print(ln)
    ev = ', '.join(f'{k}={v}' for k, v in sorted(counters.items()))
    print(f'{prop} {args.tier} seed={args.seed}: evaluations={evaluations} distinct_nontrivial={len(hashes)} '
          f'anchor_lines={coverage["anchor_lines_hit"]}/{coverage["anchor_lines_total"]} wall={wall:.1f}s')
    if ev:
        print(f'  monitor events: {ev}')
    if n_viol:
        for x in inconclusive[:3]:
            print(f'  (also inconclusive: {x[:600]})')
        print(f'{prop}: VIOLATED ({n_viol} reported)')
        return 1
    if inconclusive:
        for x in inconclusive[:5]:
            print(f'INCONCLUSIVE property={prop} reason={x[:1500]}')
        return 2
    print(f'{prop}: held on everything observed' + (f' ({n_known} observations fall under known findings)' if n_known else ''))
    return 0


if __name__ == '__main__':
    sys.exit(main())
