"""C16 - eval() and the time-series helpers compute what their definitions say.

Monitor: a reference evaluator.  Helpers are compared against loop-level definitions
exhaustively over small arrays; eval() expressions are generated from an AST whose
index nodes are tagged positional vs label, rendered once with backticks for fsic and
once with positions resolved by the reference label model, and both are evaluated on
the same data.  Around every call the container snapshot and the package-level helper
table are compared before/after."""
import copy
import itertools
import math
import warnings

import numpy as np

from . import common, spans

PROPERTY = 'C16'
LEVEL = 'exploration'
RULE = ('helpers: every float/int array of length 0..N with distinct values x every shift p,d in [-n-1,n+1] x fill '
        'values, non-trivial = distinct (function, array length, dtype, shift, fill) tuple; eval: random expression ASTs '
        'over container variables, helpers, literals, positional indexes/slices and backticked label indexes/slices '
        'over every span type of the catalogue, non-trivial = distinct (span kind, expression text) that contains at '
        'least one index or helper call')
ASSUMPTIONS = ['diff(x, 0) is read as "no differencing" (the repository pins diff(x,0)==x in its own tests); only '
               'length and non-mutation are asserted for d=0',
               'int arrays are only shifted with int fill values',
               'mixed slices (positional start, label stop) resolve per component: the stop is inclusive iff it is a label',
               'label slices with both endpoints given are compared with obj[name, a:b:s] for steps of either sign; a negative step with an omitted endpoint is '
               'outside the specified domain (label indexing itself returns nothing there - C10 specifies positive steps only - while eval keeps the Python reading) '
               'and is not compared']
ANCHORS = [('fsic/functions.py', 'shift'), ('fsic/functions.py', 'lag'), ('fsic/functions.py', 'lead'), ('fsic/functions.py', 'diff'),
           ('fsic/functions.py', 'dlog'), ('fsic/core/containers.py', 'VectorContainer._resolve_expression_indexes'),
           ('fsic/core/containers.py', 'VectorContainer.eval')]
REQUIRED_COUNTERS = {'helper_calls': 100, 'eval_calls': 100, 'state_snapshots_compared': 100}
EXHAUSTIVE = {'quick': False, 'thorough': False}


def nshards(tier):
    return 8 if tier == 'quick' else 16


# ---- reference definitions --------------------------------------------------------
def ref_lag(x, p, fill):
    n = len(x)
    out = np.empty_like(x)
    for i in range(n):
        out[i] = x[i - p] if 0 <= i - p < n else fill
    return out


def ref_diff(x, d, fill):
    n = len(x)
    out = np.empty_like(x)
    for i in range(n):
        out[i] = x[i] - x[i - d] if i >= d else fill
    return out


def same(a, b):
    a, b = np.asarray(a), np.asarray(b)
    if a.shape != b.shape:
        return False
    if a.dtype.kind in 'fc' or b.dtype.kind in 'fc':
        return bool(np.array_equal(a, b, equal_nan=True))
    return bool(np.array_equal(a, b))


def check_helpers(ctx):
    from fsic import functions as F
    maxn = ctx.pick(4, 6)
    fills_f = [np.nan, 0.0, -1.5, np.inf]
    fills_i = [0, -9]
    idx = 0
    for n in range(0, maxn + 1):
        arrays = [np.arange(1, n + 1, dtype=float) * 1.5 + 0.25,
                  np.array([(i * 7 + 3) % 11 + 1 for i in range(n)], dtype=float),
                  np.arange(10, 10 + n, dtype=np.int64)]
        for x in arrays:
            fills = (fills_f + [0, -9, np.int64(7), True]) if x.dtype.kind == 'f' else fills_i      # an integer fill for float data is that number
            for p in range(-n - 1, n + 2):
                for fill in fills:
                    idx += 1
                    if not ctx.mine(idx):
                        continue
                    x0 = x.copy()
                    for fname in ('lag', 'lead', 'diff', 'dlog'):
                        if fname == 'dlog' and x.dtype.kind != 'f':
                            continue
                        key = (fname, n, str(x.dtype), x.tolist(), p, repr(fill))
                        case = {'kind': 'helper', 'f': fname, 'x': x0.tolist(), 'dtype': str(x.dtype), 'p': p, 'fill': fill}
                        ctx.evaluation(key, nontrivial=n > 0, sample=case)
                        _one_helper(ctx, F, case, x, x0)
    # default arguments
    x = np.array([1.0, 2.0, 4.0, 8.0])
    for fname, want in (('lag', ref_lag(x, 1, np.nan)), ('lead', ref_lag(x, -1, np.nan)),
                        ('diff', ref_diff(x, 1, np.nan)), ('dlog', ref_diff(np.log(x), 1, np.nan))):
        got = getattr(F, fname)(x)
        ctx.count('helper_calls')
        if not same(got, want):
            ctx.violation('helper-default-args', f'{fname}(x) with default arguments = {got!r}, definition gives {want!r}',
                          {'kind': 'helper-default', 'f': fname, 'x': x.tolist()})


def _one_helper(ctx, F, case, x, x0):
    fname, p, fill = case['f'], case['p'], case['fill']
    if isinstance(fill, str):
        fill = common.unjson_float(fill)
    n = len(x)
    with warnings.catch_warnings():
        warnings.simplefilter('ignore')
        try:
            got = getattr(F, fname)(x, p, fill_value=fill)
        except NotImplementedError:
            if fname in ('diff', 'dlog') and p < 0:
                ctx.count('diff_negative_d_unspecified')
                return
            raise
        ctx.count('helper_calls')
        if fname == 'lag':
            want = ref_lag(x0, p, fill)
        elif fname == 'lead':
            want = ref_lag(x0, -p, fill)
        elif fname == 'diff':
            want = ref_diff(x0, p, fill) if p > 0 else None
        else:
            want = ref_diff(np.log(x0), p, fill) if p > 0 else (np.log(x0) if p == 0 else None)
    if not same(x, x0):
        ctx.violation('helper-mutates-input', f'{fname}(x, {p}, fill_value={fill}) modified its input: {x0!r} -> {x!r}', case)
        x[...] = x0
    if len(got) != n:
        ctx.violation('helper-length', f'{fname}(x, {p}) has length {len(got)} for input length {n}', case)
        return
    if want is not None and not same(got, want):
        ctx.violation('helper-value', f'{fname}({x0.tolist()}, {p}, fill_value={fill}) = {np.asarray(got).tolist()} but the definition gives {want.tolist()}', case)


# ---- eval() expressions -------------------------------------------------------------
class G:
    """Random expression generator producing (fsic text, reference text, shape) where
    shape is 's' (scalar), n (full vector) or ('sl', spec) for a slice."""

    def __init__(self, rng, spec, names, helper_names):
        self.rng, self.spec, self.names = rng, spec, names
        self.helper_names = helper_names
        self.has_index = False

    def sp(self):
        return self.rng.choice(['', '', ' '])

    def label_at(self, i):
        t = self.spec.text_labels[i]
        return None if t is None else f'`{t}`'

    def index(self, name):
        """name[...] with positional or label index; returns (text, ref, shape)."""
        rng, n = self.rng, self.spec.n
        self.has_index = True
        r = rng.random()
        can_label = self.spec.text_labels[0] is not None
        if r < 0.25 or (not can_label and r < 0.5):
            i = rng.randrange(-n, n)
            return f'{name}[{self.sp()}{i}{self.sp()}]', f'{name}[{i}]', 's'
        if r < 0.5 and can_label:
            i = rng.randrange(n)
            return f'{name}[{self.sp()}{self.label_at(i)}{self.sp()}]', f'{name}[{i}]', 's'
        # slices
        def comp(kind):
            # returns (text, position or None, is_label)
            k = rng.random()
            if k < 0.2:
                return '', None, False
            if k < 0.6 and can_label:
                i = rng.randrange(n)
                return self.label_at(i), i, True
            lo, hi = (-n - 1, n + 1) if kind == 'stop' else (-n, n)
            i = rng.randrange(lo, hi + 1)
            return str(i), i, False
        a_txt, a, a_lab = comp('start')
        b_txt, b, b_lab = comp('stop')
        step = rng.choice([None, None, 1, 2, 3])
        b_ref = '' if b is None else str(b + 1 if b_lab else b)
        a_ref = '' if a is None else str(a)
        if step is None:
            txt = f'{name}[{a_txt}{self.sp()}:{self.sp()}{b_txt}]'
            ref = f'{name}[{a_ref}:{b_ref}]'
        else:
            txt = f'{name}[{a_txt}:{b_txt}{self.sp()}:{self.sp()}{step}]'
            ref = f'{name}[{a_ref}:{b_ref}:{step}]'
        return txt, ref, ('sl', ref.split('[', 1)[1])

    def based_index(self):
        """An index applied to a variable, or to something other than a bare name: a parenthesised expression, a helper call,
        an already sliced series, a name followed by a blank (a subscript is a subscript wherever it appears)."""
        rng = self.rng
        nm = rng.choice(self.names)
        t, rf, sh = self.index(nm)
        r = rng.random()
        if r < 0.7:
            return t, rf, sh
        other = rng.choice(self.names)
        if r < 0.78:
            base, rbase = f'({nm} + {other})', f'({nm} + {other})'
        elif r < 0.86:
            p = rng.randrange(0, 3)
            base, rbase = f'lag({nm}, {p})', f'__lag({nm}, {p})'
        elif r < 0.93:
            base, rbase = f'{nm}[:]', f'{nm}[:]'
        else:
            base, rbase = f'{nm} ', nm
        return base + t[len(nm):], rbase + rf[len(nm):], sh

    def atom(self, want):
        rng = self.rng
        if want == 's':
            r = rng.random()
            if r < 0.3:
                lit = rng.choice(['1', '2', '0.5', '3.25', '10'])
                return lit, lit, 's'
            for _ in range(8):
                t, rf, sh = self.based_index()
                if sh == 's':
                    return t, rf, sh
            return '1.5', '1.5', 's'
        if want == 'v':
            r = rng.random()
            if r < 0.55:
                nm = rng.choice(self.names)
                return nm, nm, 'v'
            if r < 0.9 and self.helper_names:
                f = rng.choice(self.helper_names)
                nm = rng.choice(self.names)
                self.has_index = True
                if f in ('exp', 'log'):
                    return f'{f}({nm})', f'__{f}({nm})', 'v'
                p = rng.randrange(-2, 4) if f in ('lag', 'lead') else rng.randrange(0, 4)
                style = rng.random()
                if style < 0.3:
                    return f'{f}({nm})', f'__{f}({nm})', 'v'
                if style < 0.7:
                    return f'{f}({nm}, {p})', f'__{f}({nm}, {p})', 'v'
                return f'{f}({nm}, {p}, fill_value=0.0)', f'__{f}({nm}, {p}, fill_value=0.0)', 'v'
            nm = rng.choice(self.names)
            return f'{nm}[:]', f'{nm}[:]', 'v'
        # a slice expression of given spec: same slice on a different variable
        raise AssertionError

    def expr(self, depth, want):
        rng = self.rng
        if depth == 0 or rng.random() < 0.3:
            return self.atom(want)
        op = rng.choice(['+', '-', '*', '/'])
        if want == 's':
            a = self.expr(depth - 1, 's')
            b = self.expr(depth - 1, 's')
        else:
            a = self.expr(depth - 1, 'v')
            b = self.expr(depth - 1, rng.choice(['v', 's']))
            if rng.random() < 0.5:
                a, b = b, a
        if rng.random() < 0.3:
            return f'({a[0]}){self.sp()}{op}{self.sp()}({b[0]})', f'({a[1]}) {op} ({b[1]})', want
        return f'{a[0]} {op} {b[0]}', f'{a[1]} {op} {b[1]}', want

    def top(self):
        rng = self.rng
        r = rng.random()
        if r < 0.25:
            # a slice, possibly scaled by a scalar
            t, rf, sh = self.based_index()
            if rng.random() < 0.5:
                s = self.expr(1, 's')
                return f'{t} * {s[0]}', f'{rf} * {s[1]}'
            return t, rf
        if r < 0.35:
            # same slice spec on two variables
            t, rf, sh = self.index(self.names[0])
            if isinstance(sh, tuple) and len(self.names) > 1:
                other = self.names[1]
                t2 = other + t[len(self.names[0]):]
                rf2 = other + rf[len(self.names[0]):]
                return f'{t} + {t2}', f'{rf} + {rf2}'
            return t, rf
        want = rng.choice(['s', 'v', 'v'])
        t, rf, _ = self.expr(rng.randint(1, 3), want)
        return t, rf


def ref_helpers():
    def __lag(x, p=1, *, fill_value=np.nan):
        return ref_lag(np.asarray(x), p, fill_value)

    def __lead(x, p=1, *, fill_value=np.nan):
        return ref_lag(np.asarray(x), -p, fill_value)

    def __diff(x, d=1, *, fill_value=np.nan):
        x = np.asarray(x)
        return x if d == 0 else ref_diff(x, d, fill_value)

    def __dlog(x, d=1, *, fill_value=np.nan):
        lx = np.log(np.asarray(x))
        return lx if d == 0 else ref_diff(lx, d, fill_value)

    return {'__lag': __lag, '__lead': __lead, '__diff': __diff, '__dlog': __dlog, '__exp': np.exp, '__log': np.log}


def container_state(c):
    return {k: (v.copy() if isinstance(v, np.ndarray) else copy.deepcopy(v)) for k, v in c.__dict__.items() if k != 'span'}


def state_equal(a, b):
    if a.keys() != b.keys():
        return False
    for k in a:
        if isinstance(a[k], np.ndarray):
            if not (isinstance(b[k], np.ndarray) and a[k].dtype == b[k].dtype and same(a[k], b[k])):
                return False
        elif a[k] != b[k]:
            return False
    return True


def builtins_digest():
    import fsic.functions as F
    return (id(F.builtins), tuple(sorted((k, id(v)) for k, v in F.builtins.items())))


def make_container(spec, names, rng):
    from fsic.core import VectorContainer
    c = VectorContainer(spec.make())
    data = {}
    for j, nm in enumerate(names):
        vals = np.array([round(rng.uniform(0.5, 9.5), 3) for _ in range(spec.n)]) + j
        c.add_variable(nm, vals.copy())
        data[nm] = vals
    return c, data


def run_eval_case(ctx, case):
    """case: {kind:'eval', span_kind, n, origin, names, data, text, ref, locals}"""
    sp_list = [s for s in spans.catalogue(case['n'], origin=case.get('origin', 0)) if s.kind == case['span_kind']]
    if not sp_list:
        ctx.inconclusive_because(f'span kind {case["span_kind"]} not available for replay')
        return
    spec = sp_list[0]
    from fsic.core import VectorContainer
    c = VectorContainer(spec.make())
    for nm in case['names']:
        c.add_variable(nm, np.array(case['data'][nm], dtype=float))
    env = {nm: np.array(case['data'][nm], dtype=float) for nm in case['names']}
    env.update(ref_helpers())
    loc = {k: np.array(v, dtype=float) if isinstance(v, list) else v for k, v in (case.get('locals') or {}).items()}
    env.update(loc)
    before = container_state(c)
    bd = builtins_digest()
    with warnings.catch_warnings():
        warnings.simplefilter('ignore')
        try:
            want = eval(case['ref'], {'__builtins__': {}}, env)
            want_exc = None
        except Exception as e:  # e.g. shape mismatch of two slices: fsic must fail the same way
            want, want_exc = None, type(e)
        try:
            got = c.eval(case['text'], locals=dict(loc) if loc else None, warnings_='ignore')
            got_exc = None
        except Exception as e:
            got, got_exc = None, e
    ctx.count('eval_calls')
    if want_exc is not None or got_exc is not None:
        if want_exc is None or got_exc is None or not isinstance(got_exc, want_exc):
            ctx.violation(_classify_eval(case), f'eval({case["text"]!r}) on {spec.kind}: fsic raised {got_exc!r}, direct NumPy evaluation of {case["ref"]!r} gave {want_exc or want!r}', case)
        else:
            ctx.count('eval_both_raise_same')
    elif not (np.shape(got) == np.shape(want) and same(got, want)):
        ctx.violation(_classify_eval(case), f'eval({case["text"]!r}) on {spec.kind} = {np.asarray(got).tolist()!r} but {case["ref"]!r} evaluates to {np.asarray(want).tolist()!r}', case)
    ctx.count('state_snapshots_compared')
    if not state_equal(before, container_state(c)):
        ctx.violation('eval-mutates-container', f'eval({case["text"]!r}) changed the container', case)
    if builtins_digest() != bd:
        ctx.violation('eval-mutates-builtins', f'eval({case["text"]!r}) changed fsic.functions.builtins', case)


def _classify_eval(case):
    import re
    t = case['text']
    if '`' in t:
        # a purely positional slice with an explicit stop somewhere in an expression that also has a backtick
        for m in re.finditer(r'\[([^\]]*)\]', t):
            parts = m.group(1).split(':')
            if len(parts) >= 2 and '`' not in parts[1] and parts[1].strip():
                return 'eval-positional-stop-shifted'
    return 'eval-value'


def check_eval(ctx):
    rng = ctx.rng('eval')
    per_span = ctx.pick(150, 2500)
    lens = [5, 7] if ctx.quick else [3, 5, 7, 9]
    all_specs = []
    for n in lens:
        for origin in ((0,) if ctx.quick else (0, 1)):
            all_specs.extend((n, origin, s) for s in spans.catalogue(n, origin=origin))
    for si, (n, origin, spec) in enumerate(all_specs):
        if not ctx.mine(si):
            continue
        ctx.seen('span_kinds', spec.kind)
        for k in range(per_span):
            names = rng.choice([['X', 'Y'], ['X', 'Y', 'Z'], ['x1', 'H_h'], ['lagged', 'X'], ['X', 'exp1', 'Yd'],
                                # variables named like members of the container (a property, methods) are variables all the same
                                ['size', 'copy'], ['values', 'X', 'reindex'],
                                # identifiers beyond ASCII (Greek letters, accents) are identifiers all the same
                                ['α', 'ΔY', 'X'], ['été', 'β_1']])
            helper_names = ['lag', 'lead', 'diff', 'dlog', 'exp', 'log']
            c, data = make_container(spec, names, rng)
            g = G(rng, spec, names, helper_names)
            text, ref = g.top()
            case = {'kind': 'eval', 'span_kind': spec.kind, 'n': n, 'origin': origin, 'names': names,
                    'data': {k2: v.tolist() for k2, v in data.items()}, 'text': text, 'ref': ref, 'locals': None}
            ctx.evaluation((spec.kind, n, text), nontrivial=g.has_index, sample=case)
            if '`' in text:
                ctx.count('expressions_with_label_index')
            if ':' in text:
                ctx.count('expressions_with_slice')
            run_eval_case(ctx, case)
        # precedence: locals > variables > helpers; undefined names
        check_precedence(ctx, spec, n, origin, rng)
        check_caller_errstate(ctx, spec, n)
        check_label_slices_vs_indexing(ctx, spec, n, origin)


def check_label_slices_vs_indexing(ctx, spec, n, origin):
    """'backticked period labels select exactly the positions that label indexing selects': every label slice with both
    endpoints given, steps of either sign, against obj[name, a:b:s] of the same container (cells carry their positions)."""
    from fsic.core import VectorContainer
    if spec.text_labels[0] is None:
        return
    c = VectorContainer(spec.make())
    c.add_variable('X', np.arange(n, dtype=float))
    for i in range(n):
        for j in range(n):
            for step in (None, 1, 2, -1, -2, -3):
                a, b = spec.labels[i][0], spec.labels[j][0]
                text = f'X[`{spec.text_labels[i]}`:`{spec.text_labels[j]}`' + ('' if step is None else f':{step}') + ']'
                case = {'kind': 'label-slice-vs-indexing', 'span_kind': spec.kind, 'n': n, 'origin': origin, 'text': text}
                ctx.evaluation((spec.kind, n, text), nontrivial=True)
                r = []
                for f in (lambda: c.eval(text), lambda: c['X', a:b:step]):
                    try:
                        r.append(('ok', np.asarray(f()).tolist()))
                    except Exception as e:
                        r.append(('exc', type(e).__name__))
                ctx.count('label_slices_vs_indexing')
                if r[0] != r[1]:
                    ctx.violation('eval-label-slice-vs-indexing', f'eval({text!r}) on {spec.kind} selects {r[0]}; label indexing obj["X", {a!r}:{b!r}:{step}] selects {r[1]}', case)
                    return
    # the same container relabelled in place (its periods re-ordered), the same expression texts again: labels are resolved
    # against the span the container has *now*
    prim = [l[0] for l in spec.labels]
    if n >= 2 and all(isinstance(x, (int, str)) and not isinstance(x, bool) and spec.text_labels[k] == str(x) for k, x in enumerate(prim)):
        c.span = prim[1:] + prim[:1]
        ctx.count('relabelled_containers')
        for i in range(n):
            for j in range(n):
                for step in (None, 2, -1):
                    text = f'X[`{spec.text_labels[i]}`:`{spec.text_labels[j]}`' + ('' if step is None else f':{step}') + ']'
                    case = {'kind': 'label-slice-vs-indexing', 'span_kind': spec.kind, 'n': n, 'origin': origin, 'text': text, 'relabelled': True}
                    r = []
                    for f in (lambda: c.eval(text), lambda: c['X', prim[i]:prim[j]:step], lambda: c.eval(f'X[`{spec.text_labels[i]}`]'), lambda: c['X', prim[i]]):
                        try:
                            r.append(('ok', np.asarray(f()).tolist()))
                        except Exception as e:
                            r.append(('exc', type(e).__name__))
                    ctx.count('label_slices_vs_indexing')
                    if r[0] != r[1] or r[2] != r[3]:
                        ctx.violation('eval-label-slice-vs-indexing', f'after the span was relabelled in place, eval({text!r}) on {spec.kind} selects {r[0]} / {r[2]}; label indexing selects {r[1]} / {r[3]}', case)
                        return


def check_caller_errstate(ctx, spec, n):
    """eval() returns what NumPy computes for the expression *in the caller's context*: under the caller's np.errstate a fault
    (division by zero, log of zero, 0/0, overflow) raises FloatingPointError, warns or passes silently exactly as the same
    expression evaluated directly does."""
    from fsic.core import VectorContainer
    base = np.arange(0.0, n)             # starts with a zero
    c = VectorContainer(spec.make())
    c.add_variable('X', base.copy())
    c.add_variable('Y', base[::-1].copy() * 400.0)
    env = dict(ref_helpers(), X=base.copy(), Y=base[::-1].copy() * 400.0)
    exprs = [('1 / X', '1 / X'), ('log(X)', '__log(X)'), ('X / X', 'X / X'), ('exp(Y)', '__exp(Y)'), ('X + 1', 'X + 1'), ('lag(X) / X', '__lag(X) / X'), ('dlog(X)', '__dlog(X)')]
    for es in (None, 'ignore', 'warn', 'raise'):
        for text, ref_text in exprs:
            case = {'kind': 'caller-errstate', 'span_kind': spec.kind, 'n': n, 'errstate': es, 'text': text}
            ctx.evaluation(('caller-errstate', spec.kind, n, es, text), nontrivial=True, sample=case)
            import contextlib
            out = []
            for f in (lambda: eval(ref_text, {'__builtins__': {}}, dict(env)), lambda: c.eval(text, warnings_='always')):
                with warnings.catch_warnings(record=True) as w, (np.errstate(all=es) if es else contextlib.nullcontext()):
                    warnings.simplefilter('always')
                    try:
                        v = f()
                        out.append(('ret', repr(np.asarray(v).tolist()), 'warned' if any(issubclass(x.category, RuntimeWarning) for x in w) else 'silent'))
                    except Exception as e:
                        out.append(('exc', type(e).__name__, None))
            ctx.count('eval_calls')
            if out[0] != out[1]:
                ctx.violation('eval-value', f'under np.errstate(all={es!r}) eval({text!r}) gives {out[1]}; NumPy evaluating {ref_text!r} directly gives {out[0]}', case)
                return


def check_precedence(ctx, spec, n, origin, rng):
    try:
        _check_precedence(ctx, spec, n, origin, rng)
    except Exception as e:   # none of these expressions raises on the unchanged tree
        ctx.violation('eval-precedence', f'precedence / helper / undefined-name expressions on {spec.kind}: unexpected {type(e).__name__}: {e}',
                      {'kind': 'precedence', 'span_kind': spec.kind, 'n': n, 'origin': origin})


def _check_precedence(ctx, spec, n, origin, rng):
    from fsic.core import VectorContainer
    base = np.arange(1.0, n + 1)
    # a variable named like a helper overrides the helper
    for helper in ('lag', 'exp', 'diff'):
        c = VectorContainer(spec.make())
        c.add_variable(helper, base * 2)
        c.add_variable('X', base)
        case = {'kind': 'precedence', 'span_kind': spec.kind, 'n': n, 'origin': origin, 'helper': helper}
        ctx.evaluation(('prec-var', spec.kind, n, helper), nontrivial=True)
        got = c.eval(f'{helper} + X')
        ctx.count('eval_calls')
        if not same(got, base * 3):
            ctx.violation('eval-precedence', f'variable {helper!r} did not override the helper of the same name: {got!r}', case)
        # caller-supplied locals override variables
        got = c.eval('X * 2', locals={'X': base + 100})
        ctx.count('eval_calls')
        if not same(got, (base + 100) * 2):
            ctx.violation('eval-precedence', f'locals did not override the variable X: {got!r}', case)
        got = c.eval(f'{helper} * 1', locals={helper: 7.0})
        ctx.count('eval_calls')
        if not same(got, 7.0):
            ctx.violation('eval-precedence', f'locals did not override variable/helper {helper!r}: {got!r}', case)
    # the same locals dict handed to two calls, the variables having moved in between (and to a second container with the same
    # names): each call binds every variable to its series *as it is now*; the caller's dict holds what the caller put there
    c = VectorContainer(spec.make())
    c.add_variable('X', base)
    c.add_variable('Y', base * 0.5)
    c2 = VectorContainer(spec.make())
    c2.add_variable('X', base - 40)
    c2.add_variable('Y', base * 3)
    mine = {'k': 10.0}
    case = {'kind': 'precedence', 'span_kind': spec.kind, 'n': n, 'origin': origin, 'helper': 'reused-locals'}
    ctx.evaluation(('reused-locals', spec.kind, n), nontrivial=True)
    r1 = c.eval('X * k + Y + lag(X, 0)', locals=mine)
    c.X = base + 7
    r2 = c.eval('X * k + Y + lag(X, 0)', locals=mine)
    r3 = c2.eval('X * k + Y + lag(X, 0)', locals=mine)
    ctx.count('eval_calls', 3)
    ctx.count('reused_locals_probes')
    if not (same(r1, base * 10 + base * 0.5 + base) and same(r2, (base + 7) * 10 + base * 0.5 + base + 7) and same(r3, (base - 40) * 10 + base * 3 + base - 40)):
        ctx.violation('eval-value', f'one locals dict passed to three eval() calls ({spec.kind}): results {r1!r}, {r2!r}, {r3!r} do not all use the variables\' current series', case)
    if sorted(mine) != ['k'] or mine['k'] != 10.0:
        ctx.violation('eval-value', f'eval() left the caller\'s locals dict holding {sorted(mine)} (the caller supplied only "k"): whatever reads it next sees names the caller never defined', case)
    # helpers are reachable when nothing overrides them
    c = VectorContainer(spec.make())
    c.add_variable('X', base)
    before = container_state(c)
    bd = builtins_digest()
    got = c.eval('lag(X) + lead(X, 1) + diff(X) + dlog(X) + exp(X) + log(X)')
    ctx.count('eval_calls')
    h = ref_helpers()
    want = h['__lag'](base) + h['__lead'](base, 1) + h['__diff'](base) + h['__dlog'](base) + np.exp(base) + np.log(base)
    if not same(got, want):
        ctx.violation('eval-helpers', f'helper expression evaluated to {got!r}, definitions give {want!r}', {'kind': 'helpers', 'span_kind': spec.kind, 'n': n})
    # undefined name -> AttributeError naming it
    for undefined in ('Q', 'Xx', 'lagg'):
        ctx.evaluation(('undef', spec.kind, n, undefined), nontrivial=True)
        case = {'kind': 'undefined', 'span_kind': spec.kind, 'n': n, 'origin': origin, 'name': undefined}
        try:
            c.eval(f'X + {undefined}')
            ctx.violation('eval-undefined-name', f'undefined name {undefined!r} did not raise', case)
        except AttributeError as e:
            if undefined not in str(e):
                ctx.violation('eval-undefined-name', f'AttributeError does not name {undefined!r}: {e}', case)
        except Exception as e:
            ctx.violation('eval-undefined-name', f'undefined name {undefined!r} raised {type(e).__name__}: {e}', case)
        ctx.count('eval_calls')
    # a caller-supplied helper table replaces the package's: an empty one ({}) disables the helpers altogether, so their names
    # are undefined like any other (unless the caller's globals= provide them)
    for table, expr, want_v in (({}, 'X + 1', base + 1), ({'twice': lambda x: x * 2}, 'twice(X) + 1', base * 2 + 1)):
        ctx.evaluation(('own-helper-table', spec.kind, n, expr), nontrivial=True)
        got = c.eval(expr, builtins=dict(table))
        ctx.count('eval_calls')
        if not same(got, want_v):
            ctx.violation('eval-helpers', f'eval({expr!r}, builtins={sorted(table)}) = {got!r}', {'kind': 'own-helper-table', 'span_kind': spec.kind, 'n': n})
        for helper in ('lag', 'lead', 'diff', 'dlog', 'exp', 'log'):
            case = {'kind': 'undefined', 'span_kind': spec.kind, 'n': n, 'origin': origin, 'name': helper, 'builtins': sorted(table)}
            ctx.evaluation(('own-helper-table-undef', spec.kind, n, helper, len(table)), nontrivial=True)
            ctx.count('eval_calls')
            try:
                got = c.eval(f'{helper}(X)', builtins=dict(table))
                ctx.violation('eval-undefined-name', f'with builtins={sorted(table)} the helper {helper!r} is not defined, yet {helper}(X) evaluated to {got!r}', case)
            except AttributeError as e:
                if helper not in str(e):
                    ctx.violation('eval-undefined-name', f'AttributeError does not name {helper!r}: {e}', case)
            except Exception as e:
                ctx.violation('eval-undefined-name', f'undefined helper {helper!r} (builtins={sorted(table)}) raised {type(e).__name__}: {e}', case)
            got = c.eval(f'{helper}(X)', builtins=dict(table), globals={helper: lambda x: x * 100.0})
            ctx.count('eval_calls')
            if not same(got, base * 100.0):
                ctx.violation('eval-helpers', f'with builtins={sorted(table)} and globals providing {helper!r}, {helper}(X) = {got!r} instead of the caller\'s function\'s result', case)
    # ... whatever the other names look like: several equally close candidates (names differing only in case, or by one character)
    crowd = VectorContainer(spec.make())
    for nm in ('YD_r', 'yd_r', 'Yd_r', 'C', 'c', 'alpha', 'alphb', 'alphc'):
        crowd.add_variable(nm, base)
    for undefined in ('yd_k_r', 'YD_R', 'cc', 'alphd', 'W', 'zz9'):
        ctx.evaluation(('undef-crowd', spec.kind, n, undefined), nontrivial=True)
        case = {'kind': 'undefined', 'span_kind': spec.kind, 'n': n, 'origin': origin, 'name': undefined, 'crowd': True}
        try:
            crowd.eval(f'C * 2 + {undefined}')
            ctx.violation('eval-undefined-name', f'undefined name {undefined!r} did not raise', case)
        except AttributeError as e:
            if undefined not in str(e):
                ctx.violation('eval-undefined-name', f'AttributeError does not name {undefined!r}: {e}', case)
        except Exception as e:
            ctx.violation('eval-undefined-name', f'undefined name {undefined!r} (variables {list(crowd.index)}) raised {type(e).__name__}: {e}', case)
        ctx.count('eval_calls')
    # empty container
    e = VectorContainer(spec.make())
    try:
        e.eval('A + 1')
        ctx.violation('eval-undefined-name', 'undefined name in empty container did not raise', {'kind': 'undefined-empty'})
    except AttributeError as ex:
        if "'A'" not in str(ex):
            ctx.violation('eval-undefined-name', f'AttributeError does not name A: {ex}', {'kind': 'undefined-empty'})
    except Exception as ex:
        ctx.violation('eval-undefined-name', f'undefined name in empty container raised {type(ex).__name__}', {'kind': 'undefined-empty'})
    ctx.count('state_snapshots_compared')
    if not state_equal(before, container_state(c)) or builtins_digest() != bd:
        ctx.violation('eval-mutates-container', 'helper / undefined-name evaluation changed the container or the helper table', {'kind': 'helpers', 'span_kind': spec.kind, 'n': n})
    # absent label
    if spec.text_labels[0] is not None:
        try:
            c.eval('X[`__nope__`]')
            ctx.violation('eval-absent-label', 'absent backticked label did not raise', {'kind': 'absent', 'span_kind': spec.kind})
        except KeyError:
            pass
        except Exception as ex:
            ctx.violation('eval-absent-label', f'absent backticked label raised {type(ex).__name__}: {ex}', {'kind': 'absent', 'span_kind': spec.kind})
    # group labels (year on a quarterly index) select the whole group, inclusive as slice bounds
    for lab, (first, last) in spec.group_labels.items():
        ctx.evaluation(('group', spec.kind, n, lab), nontrivial=True)
        got = c.eval(f'X[`{lab}`]')
        ctx.count('eval_calls')
        if not same(got, base[first:last + 1]):
            ctx.violation('eval-group-label', f'X[`{lab}`] on {spec.kind} = {got!r}, label indexing selects positions {first}..{last}', {'kind': 'group', 'span_kind': spec.kind, 'n': n, 'label': lab})
        got = c.eval(f'X[`{lab}`:`{lab}`]')
        if not same(got, base[first:last + 1]):
            ctx.violation('eval-group-label', f'X[`{lab}`:`{lab}`] on {spec.kind} = {got!r}, label slicing selects positions {first}..{last}', {'kind': 'group', 'span_kind': spec.kind, 'n': n, 'label': lab})


def run_shard(ctx):
    check_helpers(ctx)
    check_eval(ctx)


def replay(ctx, case):
    from fsic import functions as F
    if case.get('kind') == 'helper':
        x = np.array(case['x'], dtype=case['dtype'])
        _one_helper(ctx, F, dict(case), x, x.copy())
    elif case.get('kind') == 'eval':
        run_eval_case(ctx, case)
    else:
        sp = [s for s in spans.catalogue(case.get('n', 5), origin=case.get('origin', 0)) if s.kind == case.get('span_kind')]
        if sp and case.get('kind') == 'label-slice-vs-indexing':
            check_label_slices_vs_indexing(ctx, sp[0], case.get('n', 5), case.get('origin', 0))
        elif sp:
            check_precedence(ctx, sp[0], case.get('n', 5), case.get('origin', 0), ctx.rng('replay'))
    ctx.evaluation(case, nontrivial=True)

LEVEL_TEXT = ('Reference-model monitor: the four helpers are compared with loop-level definitions exhaustively for every small '
              'array/shift/fill, and thousands of generated eval() expressions per span type are compared with direct NumPy '
              'evaluation of an independently rendered reference expression, with container and helper-table snapshots around '
              'every call. Exploration is the right level: the property quantifies over inputs and the oracle is exact.')
LEVEL_NOTE = ('Trusted: NumPy arithmetic, the reference label model in fsicverif/spans.py, Python eval of the reference '
              'expression. Held only on the arrays/expressions generated; bounds in evidence.')
TECHNIQUE = 'runtime reference-model monitor (differential oracle) + before/after state snapshots'
