import sys, itertools, collections, io, contextlib, warnings
sys.path.insert(0, '/repo')
import fsic
from fsic.exceptions import ParserError, SymbolError
OWN = (ParserError, SymbolError, IndentationError)
st = collections.Counter(); ex = collections.defaultdict(list)
def stmts(s):
    """reference: count non-blank, non-comment logical statements (paren/fence aware)"""
    # only used for simple accounting where no parens/fences
    return [l for l in (x.split('#')[0].rstrip() for x in s.splitlines()) if l.strip()]
def run(s):
    out = io.StringIO()
    try:
        with contextlib.redirect_stdout(out), warnings.catch_warnings():
            warnings.simplefilter('ignore')
            syms = fsic.parse_model(s)
    except OWN as e: st['own:' + type(e).__name__] += 1; return
    except BaseException as e:
        k = 'FOREIGN:' + type(e).__name__; st[k] += 1
        if len(ex[k]) < 8: ex[k].append(s)
        return
    st['accepted'] += 1
    try:
        M = fsic.build_model(syms); m = M(range(M.LAGS + M.LEADS + 1))
    except BaseException as e:
        k = 'BUILD/INIT:' + type(e).__name__; st[k] += 1
        if len(ex[k]) < 8: ex[k].append(s)
        return
    neq = sum(1 for x in syms if x.equation is not None)
    if '(' not in s and '`' not in s:
        n = len(stmts(s))
        if neq != n:
            k = f'DROPPED:{n}->{neq}'; st[k] += 1
            if len(ex[k]) < 10: ex[k].append(s)
mode = sys.argv[1]
if mode == 'chars':
    A = ['a', 'b', '1', '_', ' ', '\n', '=', '+', '-', '*', '/', '.', ',', '(', ')', '[', ']', '{', '}', '<', '>', '`', '#', "'", 'é']
    L = int(sys.argv[2])
    for n in range(0, L+1):
        for tup in itertools.product(A, repeat=n): run(''.join(tup))
else:
    T = ['Y', 'X', ' = ', '=', ' + ', '-', '*', '(', ')', '[', ']', '[-1]', '[1]', '{', '}', '{a}', '<', '>', '<e>', '`', '```', '\n', ' ', '#', '1', '0.5', ',', 'if', ' else ', 'exp', 'exp(', 'np.log(', '1/0', "'q'", 't']
    L = int(sys.argv[2])
    for n in range(0, L+1):
        for tup in itertools.product(T, repeat=n): run(''.join(tup))
print(sorted(st.items(), key=lambda x: -x[1]))
for k, v in ex.items(): print(k, [repr(x) for x in v])
