import sys, re, random, collections
sys.path.insert(0, '/repo'); 
src = open('/verif/notes/probe_c01_structural.py').read().split('stats = collections.Counter()')[0]
sys.argv = ['x', '0', sys.argv[1] if len(sys.argv) > 1 else '5']
ns = {}; exec(compile(src, 'head', 'exec'), ns)
import fsic, numpy as np
from fsic.tools import symbols_to_graph
gen, rng, NAMES, sp, FUNCS = ns['gen'], ns['rng'], ns['NAMES'], ns['sp'], ns['FUNCS']
st = collections.Counter()
VARLIKE = re.compile(r"^[_A-Za-z][_A-Za-z0-9]*\[t(?:[+-]\d+)?\]$")
for i in range(4000):
    kinds = {}; lhs = rng.choice([n for n in NAMES if n.split('.')[0] not in ('exp','log','max','xlog','log10')]); kinds[lhs] = 'var'
    rhs, ref = gen(rng.randint(1, 4), kinds); script = f'{lhs} = {rhs}'
    if any(f + '(' in rhs.replace(' (', '(') and f in kinds for f in FUNCS): st['skip-collision'] += 1; continue
    try: syms = fsic.parse_model(script)
    except Exception as e: st['rej'] += 1; continue
    G = symbols_to_graph(syms)
    y = f'{lhs}[t]'
    if y not in G: st['BAD-no-node'] += 1; print('NONODE', script, list(G.nodes)); continue
    if G.nodes[y].get('equation') != [s for s in syms if s.equation][0].equation: st['BAD-eq-attr'] += 1
    got = {x for x in G.predecessors(y) if VARLIKE.match(x)}
    want = {m.group(1) + '[t' + (m.group(2) or '') + ']' for m in re.finditer(r'self\._([_A-Za-z0-9]+)\[t([+-]\d+)?\]', ref)}
    if got == want: st['ok'] += 1
    else:
        st['BAD-edges'] += 1
        if st['BAD-edges'] < 6: print('EDGES', repr(script), '\n got-want', got - want, 'want-got', want - got)
    extra_nodes = {n for n in G.nodes if VARLIKE.match(n)} - want - {y}
    if extra_nodes: st['BAD-extra-nodes'] += 1; print('EXTRA', script, extra_nodes)
print(st)
