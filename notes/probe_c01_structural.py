import sys, random, ast, collections
sys.path.insert(0, '/repo')
import fsic
from fsic.exceptions import ParserError, SymbolError
rng = random.Random(int(sys.argv[2]) if len(sys.argv) > 2 else 0)
NAMES = ['C','Y','H_h','x1','X_if','is_open','Pin','not_X','origin','t','np','exp','log','max','xlog','log10','alpha_1','e','in_','T','G','YD','a','b','k9','_u','N__d', 'If', 'Else', 'forx', 'andy', 'D_or']
FUNCS = ['exp','log','max','min','abs','np.sqrt','np.maximum','mylog','xlog','float']
def sp(): return rng.choice(['', '', '', ' ', '  '])
def var(kinds):
    name = rng.choice(NAMES); kind = kinds.setdefault(name, rng.choice(['var','var','var','param','error']))
    off = rng.choice([None, None, 0, -1, -2, 1, 2, -10, 12])
    if off is None: idx = ''; k = 0
    else:
        k = off; txt = rng.choice([str(off), ('+' + str(off)) if off > 0 else str(off)])
        idx = f'[{sp()}{txt}{sp()}]'
    if kind == 'var': text = name + idx
    elif kind == 'param': text = '{' + sp() + name + sp() + '}' + idx
    else: text = '<' + sp() + name + sp() + '>' + idx
    ref = f'self._{name}[t{"" if k == 0 else ("+%d" % k if k > 0 else str(k))}]'
    return text, ref
def expr(d, kinds):
    if d == 0 or rng.random() < 0.3:
        r = rng.random()
        if r < 0.75: return var(kinds)
        lit = rng.choice(['1', '2', '0.5', '10', '3.25', '100.0'])
        return lit, lit
    r = rng.random()
    if r < 0.5:
        op = rng.choice(['+','-','*','/','**'])
        a, ra = expr(d-1, kinds); b, rb = expr(d-1, kinds)
        s1, s2 = sp(), sp()
        if op == '**' : return f'({a}){s1}**{s2}({b})', f'({ra})**({rb})'
        return f'({a}){s1}{op}{s2}({b})' if rng.random()<0.3 else f'{a} {op} {b}', f'({ra}){op}({rb})' if False else None
    if r < 0.6:
        a, ra = expr(d-1, kinds); return f'-({a})', f'-({ra})'
    if r < 0.8:
        f = rng.choice(FUNCS); n = 2 if f in ('max','min','np.maximum') else 1
        args = [expr(d-1, kinds) for _ in range(n)]
        rf = {'exp':'np.exp','log':'np.log'}.get(f, f)
        return f'{f}{rng.choice(["", "", " "])}({(", ").join(a for a, _ in args)})', f'{rf}({", ".join(r for _, r in args)})'
    if r < 0.9:
        a, ra = expr(d-1, kinds); c, rc = expr(d-1, kinds); b, rb = expr(d-1, kinds)
        cmpop = rng.choice(['>', '>=', '==', '!=', '<='])
        return f'(({a}) if ({c}) {cmpop} 0 else ({b}))', f'(({ra}) if ({rc}) {cmpop} 0 else ({rb}))'
    a, ra = expr(d-1, kinds); return f'({sp()}{a}{sp()})', f'({ra})'
# simpler: build text and reference in lockstep using a tree so binary ops w/o parens keep same text
def gen(d, kinds):
    """returns (script_text, ref_text) where ref_text is the same text with terms replaced"""
    if d == 0 or rng.random() < 0.3:
        if rng.random() < 0.75: return var(kinds)
        lit = rng.choice(['1', '2', '0.5', '10', '3.25', '100.0']); return lit, lit
    r = rng.random()
    if r < 0.5:
        op = rng.choice(['+','-','*','/','**']); a, ra = gen(d-1, kinds); b, rb = gen(d-1, kinds); s1, s2 = sp(), sp()
        if rng.random() < 0.4: return f'({a}){s1}{op}{s2}({b})', f'({ra}){op}({rb})'
        return f'{a}{s1}{op}{s2}{b}', f'{ra} {op} {rb}'
    if r < 0.6: a, ra = gen(d-1, kinds); return f'-({a})', f'-({ra})'
    if r < 0.8:
        f = rng.choice(FUNCS); n = 2 if f in ('max','min','np.maximum') else 1
        args = [gen(d-1, kinds) for _ in range(n)]; rf = {'exp':'np.exp','log':'np.log'}.get(f, f)
        return f'{f}{rng.choice(["", "", " "])}({(", ").join(a for a, _ in args)})', f'{rf}({", ".join(r for _, r in args)})'
    if r < 0.9:
        a, ra = gen(d-1, kinds); c, rc = gen(d-1, kinds); b, rb = gen(d-1, kinds); cmpop = rng.choice(['>', '>=', '==', '!=', '<='])
        return f'(({a}) if ({c}) {cmpop} 0 else ({b}))', f'(({ra}) if ({rc}) {cmpop} 0 else ({rb}))'
    a, ra = gen(d-1, kinds); return f'({sp()}{a}{sp()})', f'({ra})'
stats = collections.Counter(); shown = collections.Counter()
for i in range(int(sys.argv[1])):
    kinds = {}
    lhs_name = rng.choice([n for n in NAMES]); kinds[lhs_name] = 'var'
    rhs, ref = gen(rng.randint(1, 4), kinds)
    script = f'{lhs_name}{sp()}={sp()}{rhs}'
    refcode = f'self._{lhs_name}[t] = {ref}'
    usedfuncs = [f for f in FUNCS if f.split('.')[0] in kinds and f + '(' in rhs.replace(' (', '(')]
    try:
        syms = fsic.parse_model(script)
    except (ParserError, SymbolError, IndentationError) as e:
        stats['rejected:' + type(e).__name__] += 1
        key = 'rej'
        if shown[key] < 6: shown[key] += 1; print('REJECT', repr(script), '|', str(e).splitlines()[0][:150])
        continue
    except Exception as e:
        stats['foreign:' + type(e).__name__] += 1; print('FOREIGN', type(e).__name__, repr(script)); continue
    code = [s.code for s in syms if s.code]
    try:
        same = len(code) == 1 and ast.dump(ast.parse(code[0])) == ast.dump(ast.parse(refcode))
    except SyntaxError: same = False
    stats['ok' if same else 'MISMATCH'] += 1
    if not same:
        feats = []
        if any(n.startswith('_') for n in kinds): feats.append('underscore')
        if usedfuncs: feats.append('funcvar')
        key = tuple(feats)
        if shown[key] < 5: shown[key] += 1; print('MISMATCH', feats, repr(script), '\n   got ', code, '\n   want', refcode)
    # classification
    exp_types = {n: {'var': 'EXOGENOUS', 'param': 'PARAMETER', 'error': 'ERROR'}[k] for n, k in kinds.items()}; exp_types[lhs_name] = 'ENDOGENOUS'
    got = {s.name: s.type.name for s in syms if s.type.name in ('ENDOGENOUS','EXOGENOUS','PARAMETER','ERROR')}
    used = {n for n in kinds if n in got or True}
    if got != {n: exp_types[n] for n in kinds}:
        stats['CLASS-MISMATCH'] += 1
        if shown['class'] < 6: shown['class'] += 1; print('CLASS', repr(script), got, {n: exp_types[n] for n in kinds})
print(stats)
