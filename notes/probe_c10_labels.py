import sys, itertools, collections
sys.path.insert(0, '/repo')
import numpy as np, pandas as pd, fsic
from fsic.core import VectorContainer as VC
st = collections.Counter(); shown = collections.Counter()
def spans(n):
    yield 'range', range(2000, 2000+n)
    yield 'range0', range(n)
    yield 'liststr', [chr(97+i) for i in range(n)]
    yield 'mixed', (['a', 1, (2,3), 2.5, None, frozenset([1])] )[:n]
    yield 'npint', np.arange(10, 10+n)
    yield 'npstr', np.array([chr(97+i) for i in range(n)])
    yield 'pdint', pd.Index([5,3,9,1,7,2][:n])
    yield 'pdstr', pd.Index(list('qwerty')[:n])
    yield 'periodY', pd.period_range('2000', periods=n, freq='Y')
    yield 'periodQ', pd.period_range('2000Q1', periods=n, freq='Q')
    yield 'dt', pd.date_range('2000-01-01', periods=n, freq='D')
def labels_for(kind, span):
    labs = list(span)
    return labs
def pos(span, lab):
    for i, x in enumerate(list(span)):
        try:
            if x == lab: return i
        except Exception: pass
    return None
def bad(key, *info):
    st['BAD:' + key] += 1
    if shown[key] < 4: shown[key] += 1; print('BAD', key, *info)
for n in (1, 2, 3, 5):
  for kind, span in spans(n):
    n_ = len(span)
    c = VC(span); c.add_variable('X', np.arange(n_, dtype=float))
    labs = labels_for(kind, span)
    absent = {'range': 1999, 'range0': -1, 'liststr': 'zz', 'mixed': 'zz', 'npint': 99, 'npstr': 'zz', 'pdint': 99, 'pdstr': 'zz', 'periodY': '1990', 'periodQ': '1990Q1', 'dt': '1990-01-01'}[kind]
    for i, lab in enumerate(labs):
        alts = [lab]
        if kind.startswith('period') or kind == 'dt': alts.append(str(lab))
        for l in alts:
            try: v = c['X', l]
            except Exception as e: bad('get-raise', kind, l, type(e).__name__, e); continue
            st['get'] += 1
            if not (np.ndim(v) == 0 and v == i): bad('get', kind, l, v, i)
            c2 = c.copy(); c2['X', l] = -1.0
            exp = np.arange(n_, dtype=float); exp[i] = -1
            st['set'] += 1
            if not np.array_equal(c2.X, exp): bad('set', kind, l, c2.X)
    try: c['X', absent]; bad('absent-noraise', kind)
    except KeyError: st['absent-keyerror'] += 1
    except Exception as e: bad('absent-foreign', kind, type(e).__name__)
    for a, b in itertools.product([None] + list(range(n_)), repeat=2):
        for s in (None, 1, 2, 3):
            la = None if a is None else labs[a]; lb = None if b is None else labs[b]
            if kind == 'mixed' and (la is None and a is not None or lb is None and b is not None): continue  # label None == open end
            pa = 0 if a is None else a; pb = n_-1 if b is None else b
            exp = list(range(pa, pb+1, s or 1))
            try: v = c['X', la:lb:s]
            except Exception as e: bad('slice-raise', kind, la, lb, s, type(e).__name__, e); continue
            st['slice'] += 1
            if list(v) != exp: bad('slice', kind, (a, b, s), list(v), exp)
            c2 = c.copy(); c2['X', la:lb:s] = -1.0
            e2 = np.arange(n_, dtype=float); e2[exp] = -1
            if not np.array_equal(c2.X, e2): bad('slice-set', kind, (a,b,s), c2.X)
    for lab in (absent,):
        for other in (None, labs[0]):
            for sl in (slice(lab, other), slice(other, lab)):
                try: c['X', sl]; bad('absent-slice-noraise', kind, sl)
                except KeyError: st['absent-slice-keyerror'] += 1
                except Exception as e: bad('absent-slice-foreign', kind, sl, type(e).__name__)
print(st)
