import sys, re, random, collections
sys.path.insert(0, '/repo'); sys.argv = ['x', '0', sys.argv[1] if len(sys.argv) > 1 else '5']
import importlib.util
spec = importlib.util.spec_from_file_location('p', 'c01probe.py'); 
src = open('c01probe.py').read().split('stats = collections.Counter()')[0]
ns = {}; exec(compile(src, 'c01probe_head', 'exec'), ns)
import fsic
gen, rng, NAMES, sp = ns['gen'], ns['rng'], ns['NAMES'], ns['sp']
st = collections.Counter()
for i in range(3000):
    kinds = {}; lhs = rng.choice(NAMES); kinds[lhs] = 'var'
    rhs, _ = gen(rng.randint(1, 4), kinds); script = f'{lhs} = {rhs}'
    try: syms = fsic.parse_model(script)
    except Exception as e: st['rej'] += 1; continue
    eqs = [s for s in syms if s.equation]
    if not eqs: st['noeq'] += 1; continue
    s0 = eqs[0]
    back = re.sub(r'\[t([+-]\d+)?\]', lambda m: '[' + (m.group(1) or '0') + ']', s0.equation)
    try: syms2 = fsic.parse_model(back)
    except Exception as e: st['reparse-fail:' + type(e).__name__] += 1; print('FAIL', repr(script), '->', repr(back), e); continue
    e2 = [s for s in syms2 if s.equation]
    if len(e2) == 1 and e2[0].equation == s0.equation and e2[0].code == s0.code: st['fixed-point'] += 1
    else:
        st['NOT-FIXED'] += 1
        if st['NOT-FIXED'] < 6: print('NOTFIXED', repr(script), '\n ', s0.equation, '\n ', e2[0].equation if e2 else None, '\n ', s0.code, '\n ', e2[0].code if e2 else None)
print(st)
