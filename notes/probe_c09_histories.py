import sys, itertools, collections, random, copy
sys.path.insert(0, '/repo')
import numpy as np, fsic
from fsic.core import VectorContainer as VC
st = collections.Counter(); shown = collections.Counter()
def bad(key, *info):
    st['BAD:' + key] += 1
    if shown[key] < 5: shown[key] += 1; print('BAD', key, *info)
rng = random.Random(int(sys.argv[1]))
def operand(n):
    r = rng.random()
    base = rng.choice([lambda k: list(range(k)), lambda k: [0.5]*k, lambda k: [True]*k, lambda k: ['s']*k])
    k = rng.choice([n, n, n, 1, n+1, n-1, 0])
    k = max(k, 0)
    if r < 0.25: return rng.choice([3, 2.5, True, 'ab', None, np.float64(1.5), np.int64(4)])
    if r < 0.4: return base(k)
    if r < 0.5: return tuple(base(k))
    if r < 0.55: return range(k)
    if r < 0.65: return [list(range(n)) for _ in range(n)] if rng.random() < 0.5 else [[1, 2]] * n
    if r < 0.8: return np.array(base(k))
    if r < 0.9: return np.ones((rng.choice([1, n]), rng.choice([1, n])))
    return np.array(base(n)).reshape(-1, 1)
def snap(c):
    return {k: (c.__dict__['_'+k].copy(), c.__dict__['_'+k].dtype, c.__dict__['_'+k].shape) for k in c.__dict__['index']}
def same(a, b):
    if a.keys() != b.keys(): return False
    for k in a:
        if a[k][1] != b[k][1] or a[k][2] != b[k][2]: return False
        x, y = a[k][0], b[k][0]
        if x.dtype.kind == 'f':
            if not np.array_equal(x, y, equal_nan=True): return False
        elif x.tolist() != y.tolist(): return False
    return True
def inv(c, dtypes, where):
    n = len(c.span)
    for k in c.__dict__['index']:
        a = c.__dict__['_'+k]
        if not isinstance(a, np.ndarray) or a.ndim != 1 or a.shape[0] != n: bad('shape', where, k, getattr(a, 'shape', type(a))); return False
        if a.dtype != dtypes[k]: bad('dtype', where, k, a.dtype, dtypes[k]); return False
    try:
        v = c.values
        if len(c.index) and v.shape != (len(c.index), n): bad('values-shape', where, v.shape)
        if c.size != len(c.index) * n: bad('size', where)
    except Exception as e: bad('values-raise', where, type(e).__name__, e)
    return True
for it in range(int(sys.argv[2])):
    n = rng.choice([1, 2, 3, 4]); span = list(range(2000, 2000+n))
    c = VC(span, strict=rng.random() < 0.3); dtypes = {}; hist = []
    for step in range(rng.randint(1, 10)):
        op = rng.choice(['add', 'attr', 'item', 'label', 'lslice', 'replace', 'values_arr', 'values_scalar', 'add_attr', 'strict', 'newattr'])
        names = list(c.index); v = operand(n); before = snap(c); attrs_before = list(c.__dict__['_attributes'])
        desc = (op, repr(v)[:60])
        try:
            if op == 'add':
                nm = rng.choice(['A','B','C','D']); dt = rng.choice([None, float, int, bool, str]); desc += (nm, dt)
                c.add_variable(nm, v, dtype=dt); dtypes[nm] = c.__dict__['_'+nm].dtype
            elif op == 'attr' and names: nm = rng.choice(names); desc += (nm,); setattr(c, nm, v)
            elif op == 'item' and names: nm = rng.choice(names + ['ZZ']); desc += (nm,); c[nm] = v
            elif op == 'label' and names: nm = rng.choice(names); lab = rng.choice(span + [1999]); desc += (nm, lab); c[nm, lab] = v
            elif op == 'lslice' and names: nm = rng.choice(names); a = rng.choice(span + [None]); b = rng.choice(span + [None]); s = rng.choice([None, 1, 2]); desc += (nm, a, b, s); c[nm, a:b:s] = v
            elif op == 'replace' and names: kw = {rng.choice(names): v for _ in range(2)}; desc += (list(kw),); c.replace_values(**kw)
            elif op == 'values_arr': sh = rng.choice([c.values.shape, (len(c.index), n+1), (max(len(c.index)-1, 0), n)]); c.values = np.full(sh, 2.0)
            elif op == 'values_scalar': c.values = rng.choice([0, 1.5, True])
            elif op == 'add_attr': c.add_attribute(rng.choice(['note', 'A', 'span']), v)
            elif op == 'strict': c.strict = not c.strict
            elif op == 'newattr': nm = rng.choice(['a', 'Aa', 'note2', 'b']); desc += (nm,); setattr(c, nm, v)
            else: continue
            hist.append(desc + ('ok',)); st['ok:' + op] += 1
        except Exception as e:
            hist.append(desc + (type(e).__name__,)); st['raise:' + op + ':' + type(e).__name__] += 1
            if op in ('add', 'attr', 'item', 'label', 'lslice') and not same(before, snap(c)): bad('changed-on-raise', hist[-3:])
        if c.strict and op == 'newattr' and hist[-1][-1] == 'ok' and len(c.__dict__['_attributes']) > len(attrs_before): bad('strict-new-attr', hist[-1])
        if not inv(c, dtypes, hist[-1]): break
print(st)
