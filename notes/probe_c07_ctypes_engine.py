import ctypes, numpy as np, subprocess, sys, os, random, tempfile
sys.path.insert(0, '/repo')
import fsic
from fsic.fortran import build_fortran_definition, FortranEngine
c_int = ctypes.c_int; c_dbl = ctypes.c_double
def engine(lib):
    class Engine:
        @staticmethod
        def evaluate(initial_values, t):
            a = np.asfortranarray(initial_values, dtype=np.float64); nrows, ncols = a.shape
            out = np.empty_like(a, order='F'); ec = c_int(-99)
            lib.evaluate_(a.ctypes.data_as(ctypes.c_void_p), ctypes.byref(c_int(t)), out.ctypes.data_as(ctypes.c_void_p), ctypes.byref(ec), ctypes.byref(c_int(nrows)), ctypes.byref(c_int(ncols)))
            return out, ec.value
        @staticmethod
        def solve_t(initial_values, t, min_iter, max_iter, tol, offset, cv, error_control):
            a = np.asfortranarray(initial_values, dtype=np.float64); nrows, ncols = a.shape
            out = np.empty_like(a, order='F'); cv = np.asarray(cv, dtype=np.int32) + SHIFT
            conv = c_int(0); it = c_int(-99); ec = c_int(-99)
            lib.solve_t_(a.ctypes.data_as(ctypes.c_void_p), ctypes.byref(c_int(t)), ctypes.byref(c_int(min_iter)), ctypes.byref(c_int(max_iter)), ctypes.byref(c_dbl(tol)), ctypes.byref(c_int(offset)),
                         cv.ctypes.data_as(ctypes.c_void_p), ctypes.byref(c_int(error_control)), out.ctypes.data_as(ctypes.c_void_p), ctypes.byref(conv), ctypes.byref(it), ctypes.byref(ec),
                         ctypes.byref(c_int(nrows)), ctypes.byref(c_int(ncols)), ctypes.byref(c_int(len(cv))))
            return out, bool(conv.value), it.value, ec.value
        @staticmethod
        def solve(initial_values, indexes, min_iter, max_iter, tol, offset, cv, failure_control, error_control):
            a = np.asfortranarray(initial_values, dtype=np.float64); nrows, ncols = a.shape
            out = np.empty_like(a, order='F'); cv = np.asarray(cv, dtype=np.int32) + SHIFT
            idx = np.asarray(indexes, dtype=np.int32); npd = len(idx)
            conv = np.zeros(npd, dtype=np.int32); its = np.zeros(npd, dtype=np.int32); ecs = np.zeros(npd, dtype=np.int32)
            P = lambda x: x.ctypes.data_as(ctypes.c_void_p); R = ctypes.byref
            lib.solve_(P(a), P(idx), R(c_int(min_iter)), R(c_int(max_iter)), R(c_dbl(tol)), R(c_int(offset)), P(cv), R(c_int(failure_control)), R(c_int(error_control)),
                       P(out), P(conv), P(its), P(ecs), R(c_int(nrows)), R(c_int(ncols)), R(c_int(len(cv))), R(c_int(npd)))
            return out, conv.astype(bool), its, ecs
    return Engine
SHIFT = 1  # emulate the +1 fix so that we measure numeric noise only
rng = random.Random(1)
VARS = ['A','B','C','D']
def expr(d):
    if d == 0 or rng.random() < 0.25:
        r = rng.random()
        if r < 0.6: return rng.choice(VARS) + rng.choice(['', '[-1]', '[1]', ''])
        if r < 0.8: return '{p' + str(rng.randint(1,2)) + '}'
        return rng.choice(['2', '3', '1'])
    r = rng.random()
    if r < 0.55: return f'{expr(d-1)} {rng.choice(["+","-","*","/"])} {expr(d-1)}'
    if r < 0.65: return f'({expr(d-1)}) ** {rng.choice(["2","3","p1x","(0 - 2)"]).replace("p1x","{p1}")}'
    if r < 0.75: return f'-({expr(d-1)})'
    if r < 0.85: return f'{rng.choice(["exp","log","abs"])}({expr(d-1)})'
    if r < 0.95: return f'{rng.choice(["max","min"])}({expr(d-1)}, {expr(d-1)})'
    return f'({expr(d-1)})'
worst = 0; n = 0; fails = 0; cnt_diff = 0
tmp = tempfile.mkdtemp()
for i in range(int(sys.argv[1])):
    script = f'Y = {expr(3)}\nZ = 0.5 * Z + 0.25 * Y[-1] + {expr(2)}'.replace('0.5','{h}').replace('0.25','{q}')
    try: s = fsic.parse_model(script)
    except Exception as e: print('parse fail', script, e); continue
    src = build_fortran_definition(s); f = os.path.join(tmp, f'm{i}.f95'); so = os.path.join(tmp, f'm{i}.so'); open(f,'w').write(src)
    r = subprocess.run(['gfortran','-shared','-fPIC','-O0','-g','-fcheck=all','-o',so,f], capture_output=True, text=True)
    if r.returncode: fails += 1; print('COMPILE FAIL', script, r.stderr.splitlines()[-1] if r.stderr else ''); continue
    Py = fsic.build_model(s)
    class F(FortranEngine, Py): ENGINE = engine(ctypes.CDLL(so))
    nrng = np.random.default_rng(i)
    kw = {nm: nrng.uniform(0.5, 2.0, 7) for nm in Py.NAMES}; kw['h'] = np.full(7, 0.5); kw['q'] = np.full(7, 0.25)
    p = Py(range(7), **kw); q = F(range(7), **kw)
    with np.errstate(all='ignore'):
        try: rp = p.solve(failures='ignore', errors='ignore', max_iter=50, tol=1e-9)
        except Exception as e: rp = type(e).__name__
        try: rq = q.solve(failures='ignore', errors='ignore', max_iter=50, tol=1e-9)
        except Exception as e: rq = type(e).__name__
    if not np.all(np.isfinite(p.values)): continue
    n += 1
    d = np.abs(p.values - q.values) / np.maximum(1, np.maximum(np.abs(p.values), np.abs(q.values)))
    worst = max(worst, d.max())
    if d.max() > 1e-12: print('DIFF', d.max(), script)
    if not (p.iterations == q.iterations).all() or not (p.status == q.status).all(): cnt_diff += 1; print('ITER/STATUS DIFF', script, p.iterations, q.iterations, p.status, q.status)
print('compared', n, 'compile fails', fails, 'worst rel diff', worst, 'iter diffs', cnt_diff)
import shutil; shutil.rmtree(tmp)
