import sys, itertools, warnings, math
sys.path.insert(0, '/repo')
import numpy as np, fsic
from fsic.exceptions import SolutionError, NonConvergenceError

TOL = 0.5
OUT = ['same', 'small', 'eq', 'big', 'nan', 'pinf', 'ninf', 'warn', 'exc', 'zero']

class Boom(Exception): pass

class SM(fsic.BaseModel):
    ENDOGENOUS = ['A', 'B']; EXOGENOUS = ['X']; NAMES = ENDOGENOUS + EXOGENOUS; CHECK = ENDOGENOUS
    def __init__(self, *a, script=(), **k):
        super().__init__(*a, **k)
        self.__dict__['script'] = list(script); self.__dict__['log'] = []
    def solve_t_before(self, t, **kw): self.__dict__['log'].append(('before', kw.get('iteration')))
    def solve_t_after(self, t, **kw): self.__dict__['log'].append(('after', kw.get('iteration')))
    def _evaluate(self, t, *, iteration=None, **kw):
        self.__dict__['log'].append(('eval', iteration))
        s = self.__dict__['script']
        o = s[iteration-1] if iteration-1 < len(s) else 'same'
        a = self._A
        if o == 'same': pass
        elif o == 'small': a[t] = (a[t] if np.isfinite(a[t]) else 0.0) + TOL*0.5
        elif o == 'eq': a[t] = (a[t] if np.isfinite(a[t]) else 0.0) + TOL
        elif o == 'big': a[t] = (a[t] if np.isfinite(a[t]) else 0.0) + TOL*4
        elif o == 'nan': a[t] = np.nan
        elif o == 'pinf': a[t] = np.inf
        elif o == 'ninf': a[t] = -np.inf
        elif o == 'zero': a[t] = 0.0
        elif o == 'warn': a[t] = np.log(self._X[t])   # X = 0 -> RuntimeWarning, -inf
        elif o == 'exc': raise Boom('x')

def ref(script, v0, min_iter, max_iter, failures, errors, cfe):
    """returns dict(status, iterations, result) ; result: True/False or exception class name; None = unspecified"""
    if min_iter > max_iter: return dict(exc='ValueError', status='-', iterations=-1, evals=0)
    nonfin = lambda v: not math.isfinite(v)
    if errors == 'raise' and nonfin(v0): return dict(exc='SolutionError', status='-', iterations=-1, evals=0)
    prev_view = v0; stored = v0; evals = 0
    for k in range(1, max_iter+1):
        o = script[k-1] if k-1 < len(script) else 'same'
        evals += 1
        base = stored if math.isfinite(stored) else 0.0
        if o == 'exc':
            return dict(exc='SolutionError', cause='Boom', status='E' if errors=='raise' else None, iterations=k if errors=='raise' else None, evals=evals)
        if o == 'warn' and errors == 'raise' and cfe:
            return dict(exc='SolutionError', cause='RuntimeWarning', status='E', iterations=k, evals=evals, stored_unchanged=True)
        new = {'same': stored, 'small': base+TOL*0.5, 'eq': base+TOL, 'big': base+TOL*4, 'nan': math.nan, 'pinf': math.inf, 'ninf': -math.inf, 'warn': -math.inf, 'zero': 0.0}[o]
        stored = new
        if nonfin(prev_view):
            prev_view = new; continue
        if nonfin(new):
            if errors == 'raise': return dict(exc='SolutionError', status='E', iterations=k, evals=evals)
            if errors == 'skip': return dict(ret=False, status='S', iterations=k, evals=evals)
            if errors in ('ignore', 'replace'):
                if k == max_iter: break
                prev_view = 0.0 if errors == 'replace' else new
                continue
            return dict(exc='ValueError', status=None, iterations=None, evals=evals)
        if k >= min_iter and abs(new - prev_view) < TOL:
            return dict(ret=True, status='.', iterations=k, evals=evals, after=1)
        prev_view = new
    r = dict(status='F', iterations=max_iter, evals=evals)
    if failures == 'raise': r['exc'] = 'NonConvergenceError'
    else: r['ret'] = False
    return r

def run(script, v0, min_iter, max_iter, failures, errors, cfe):
    m = SM(range(3), script=script, X=0.0); m.A[1] = v0
    res = {}
    try:
        with warnings.catch_warnings():
            warnings.simplefilter('ignore')
            res['ret'] = m.solve_t(1, min_iter=min_iter, max_iter=max_iter, tol=TOL, failures=failures, errors=errors, catch_first_error=cfe)
    except BaseException as e:
        res['exc'] = type(e).__name__; res['cause'] = type(e.__cause__).__name__ if e.__cause__ is not None else None
    res['status'] = str(m.status[1]); res['iterations'] = int(m.iterations[1])
    res['evals'] = sum(1 for x in m.log if x[0]=='eval'); res['before'] = sum(1 for x in m.log if x[0]=='before'); res['after'] = sum(1 for x in m.log if x[0]=='after')
    res['A'] = float(m.A[1]); res['others'] = (m.status[[0,2]].tolist(), m.iterations[[0,2]].tolist())
    return res

bad = {}; n = 0
for L in range(0, 4):
  for script in itertools.product(OUT, repeat=L):
    for v0 in (0.0, math.nan, math.inf):
      for max_iter in range(0, 5):
        for min_iter in range(0, max_iter+2):
          for failures in ('raise', 'ignore'):
            for errors in ('raise', 'skip', 'ignore', 'replace', 'bogus'):
              for cfe in (True, False):
                n += 1
                e = ref(script, v0, min_iter, max_iter, failures, errors, cfe)
                a = run(script, v0, min_iter, max_iter, failures, errors, cfe)
                probs = []
                for key in ('ret', 'exc', 'status', 'iterations', 'evals', 'cause'):
                    if key in e and e[key] is not None and e.get(key) != a.get(key): probs.append((key, e.get(key), a.get(key)))
                if ('ret' in e) != ('ret' in a) and not (errors=='bogus'): probs.append(('kind', e, a))
                if a['status'] not in '-.FES': probs.append(('alphabet', a['status']))
                if a.get('ret') is True and a['status'] != '.': probs.append(('flag',))
                if a['others'] != (['-','-'], [-1,-1]): probs.append(('others', a['others']))
                if probs:
                    k = (probs[0][0], errors, max_iter == 0)
                    bad.setdefault(k, []).append((script, v0, min_iter, max_iter, failures, errors, cfe, probs, a))
print('cases', n, 'mismatch classes', len(bad))
for k, v in bad.items():
    print(k, len(v)); print('   e.g.', v[0])
