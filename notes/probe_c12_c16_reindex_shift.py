import sys, itertools, collections, random
sys.path.insert(0, '/repo')
import numpy as np, pandas as pd, fsic
from fsic.core import VectorContainer as VC
from fsic.functions import lag, lead, diff, dlog
st = collections.Counter(); shown = collections.Counter()
def bad(key, *info):
    st['BAD:' + key] += 1
    if shown[key] < 4: shown[key] += 1; print('BAD', key, *info)
U = ['a','b','c','d','e']
def mk(kind, labs):
    if kind == 'list': return list(labs)
    if kind == 'np': return np.array(labs)
    if kind == 'pd': return pd.Index(labs)
    if kind == 'tuple': return tuple(labs)
for kind in ('list', 'np', 'pd', 'tuple'):
  for n_old in range(0, 4):
    for old in itertools.permutations(U[:4], n_old):
      for n_new in range(0, 4):
        for new in itertools.product(U, repeat=n_new):
          if kind == 'pd' and len(set(new)) != len(new) and False: continue
          try:
            c = VC(mk(kind, old))
          except Exception as e: bad('ctor', kind, old, e); continue
          c.add_variable('F', np.arange(1, n_old+1, dtype=float)); c.add_variable('I', np.arange(1, n_old+1)); c.add_variable('B', np.arange(n_old) % 2 == 0); c.add_variable('S', np.array([x*2 for x in old], dtype='<U2') if n_old else np.array([], dtype='<U2'))
          for fills in ({}, {'fill_value': 7.9}, {'F': -1.5, 'S': 'zzz'}):
            try: r = c.reindex(mk(kind, new), **fills)
            except Exception as e: bad('raise', kind, old, new, fills, type(e).__name__, e); continue
            st['reindex'] += 1
            for name, default in (('F', np.nan), ('I', 0), ('B', False), ('S', '')):
                fv = fills.get(name, fills.get('fill_value', None))
                dt = c[name].dtype
                if fv is None: fvc = np.array([default]).astype(dt)[0] if name != 'F' else np.nan
                else:
                    if name == 'I': fv = int(fv)
                    if name == 'B': fv = bool(fv)
                    if name == 'S': fv = str(fv)
                    fvc = np.full(1, fv, dtype=dt)[0]
                exp = np.array([c[name][old.index(l)] if l in old else fvc for l in new], dtype=dt) if n_new else np.array([], dtype=dt)
                got = r[name]
                if got.dtype != dt or got.shape != exp.shape or not np.array_equal(got, exp, equal_nan=(name=='F')): bad('cell', kind, old, new, fills, name, got, exp)
            if r is c or any(np.shares_memory(r[k], c[k]) for k in c.index if len(c[k]) and len(r[k])): bad('shared', kind)
            if list(c.F) != list(np.arange(1, n_old+1, dtype=float)): bad('orig-changed')
print(st)
# helpers
for n in range(0, 6):
    x = np.arange(1, n+1, dtype=float) * 1.5; x0 = x.copy()
    for p in range(-n-2, n+3):
        for fv in (np.nan, 0.0, -7.0):
            for fn, sign in ((lag, 1), (lead, -1)):
                try: r = fn(x, p, fill_value=fv)
                except Exception as e: bad('shift-raise', fn.__name__, n, p, type(e).__name__, e); continue
                exp = np.array([x[i - sign*p] if 0 <= i - sign*p < n else fv for i in range(n)], dtype=float)
                st['shift'] += 1
                if r.shape != x.shape or not np.array_equal(r, exp, equal_nan=True): bad('shift', fn.__name__, n, p, fv, r, exp)
                if not np.array_equal(x, x0): bad('input-modified', fn.__name__)
            if p >= 0:
                try:
                    r = diff(x, p, fill_value=fv); exp = np.array([x[i] - x[i-p] if i >= p else fv for i in range(n)], dtype=float) if p > 0 else x
                    st['diff'] += 1
                    if not np.array_equal(r, exp, equal_nan=True): bad('diff', n, p, fv, r, exp)
                    r = dlog(x, p, fill_value=fv); lx = np.log(x); exp = np.array([lx[i] - lx[i-p] if i >= p else fv for i in range(n)], dtype=float) if p > 0 else lx
                    if not np.allclose(r, exp, equal_nan=True): bad('dlog', n, p, fv, r, exp)
                except Exception as e: bad('diff-raise', n, p, type(e).__name__, e)
print(st)
