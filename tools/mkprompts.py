#!/usr/bin/env python3
"""Prepare the next round of seeding prompts under /tmp/seed from the previous round's prompts.
usage: tools/mkprompts.py <prev> <next> <steering-file> [ID ...]
The prompt for <ID>-<next> is the prompt of <ID>-<prev> with (a) every '-<prev>' path suffix replaced, (b) the summary of the
change kept as seeded/<ID>-<prev> appended to the list of earlier changes, (c) the steering paragraph replaced."""
import json, os, re, subprocess, sys
prev, nxt, steer = sys.argv[1:4]
ids = sys.argv[4:] or [f'C{i:02d}' for i in range(1, 21)]
root = os.path.dirname(os.path.dirname(os.path.abspath(__file__)))
steering = open(steer).read().strip()
for i in ids:
    s = open(f'/tmp/seed/prompt-{i}-{prev}.txt').read()
    s = s.replace(f'{i}-{prev}', f'{i}-{nxt}')
    meta = os.path.join(root, 'seeded', f'{i}-{prev}', 'meta.json')
    lines = s.split('\n')
    k = max(j for j, l in enumerate(lines) if re.match(r'\s+\(\d+\) "', l))
    num = int(re.match(r'\s+\((\d+)\)', lines[k]).group(1))
    if os.path.exists(meta):
        summ = json.load(open(meta))['summary'].replace('\n', ' ')[:230]
        lines.insert(k + 1, f'  ({num + 1}) "{summ}"')
        k += 1
    j = next(j for j, l in enumerate(lines) if l.startswith('This time prefer a change of one of these kinds:'))
    lines[j] = steering
    open(f'/tmp/seed/prompt-{i}-{nxt}.txt', 'w').write('\n'.join(lines))
    os.makedirs(f'/tmp/seed/out-{i}-{nxt}', exist_ok=True)
    wt = f'/tmp/seed/wt-{i}-{nxt}'
    subprocess.run(['git', '-C', '/repo', 'worktree', 'remove', '--force', wt], capture_output=True)
    subprocess.run(['git', '-C', '/repo', 'worktree', 'add', '-q', '--detach', wt, 'HEAD'], check=True)
print('prepared', len(ids), 'prompts for round', nxt)
