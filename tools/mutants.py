#!/venv/bin/python
"""Self-validation of the monitors: apply small source mutations ("must catch" items of
DESIGN.md section 4) to a scratch copy of /repo/fsic outside /repo and /verif, run the
named checks against the copy (FSIC_REPO) and report which mutants are caught.

usage: tools/mutants.py [--tier quick] [--only NAME_SUBSTR] [--baseline]
"""
import argparse, json, os, shutil, subprocess, sys, tempfile, time

ROOT = os.path.dirname(os.path.dirname(os.path.abspath(__file__)))
sys.path.insert(0, ROOT)
from tools.mutant_list import MUTANTS  # noqa: E402


def main():
    ap = argparse.ArgumentParser()
    ap.add_argument('--tier', default='quick')
    ap.add_argument('--only', default='')
    ap.add_argument('--baseline', action='store_true', help='also run the repository tests against each mutant')
    ap.add_argument('--jobs', type=int, default=4)
    args = ap.parse_args()
    todo = [m for m in MUTANTS if args.only in m['name'] or args.only in ','.join(m['checks'])]
    results = []
    running = []

    def launch(m):
        d = tempfile.mkdtemp(prefix='fsic-mut-')
        shutil.copytree('/repo/fsic', os.path.join(d, 'fsic'))
        if args.baseline:
            shutil.copytree('/repo/tests', os.path.join(d, 'tests'), ignore=shutil.ignore_patterns('*.f95'))
        p = os.path.join(d, m['file'])
        s = open(p).read()
        if s.count(m['old']) < 1:
            shutil.rmtree(d)
            return None, d, f'pattern not found in {m["file"]}'
        s = s.replace(m['old'], m['new'], m.get('count', 1))
        open(p, 'w').write(s)
        env = dict(os.environ, FSIC_REPO=d, VERIF_JOBS='4')
        cmd = ' ; '.join(f'bin/check {c} --tier {args.tier} --no-evidence > {d}/{c}.out 2>&1; echo {c} $? >> {d}/rc' for c in m['checks'])
        if args.baseline:
            cmd += f' ; FSIC_REPO={d} bin/baseline > {d}/baseline.out 2>&1; echo baseline $? >> {d}/rc'
        return subprocess.Popen(cmd, shell=True, cwd=ROOT, env=env), d, None

    queue = list(todo)
    while queue or running:
        while queue and len(running) < args.jobs:
            m = queue.pop(0)
            proc, d, err = launch(m)
            if proc is None:
                results.append((m, {'error': err}))
                continue
            running.append((m, proc, d))
        time.sleep(0.2)
        for item in list(running):
            m, proc, d = item
            if proc.poll() is None:
                continue
            running.remove(item)
            rcs = dict(line.split() for line in open(os.path.join(d, 'rc')))
            detail = {}
            for c in m['checks']:
                out = open(os.path.join(d, c + '.out')).read()
                mech = [l.strip() for l in out.splitlines() if l.strip().startswith('mechanism=')]
                rc = int(rcs.get(c, -1))
                if rc == 1 and 'VIOLATION property=' not in out:
                    rc = 9  # crashed, not a verdict
                detail[c] = {'rc': rc, 'mech': sorted({x.split()[0] for x in mech})[:4]}
            if args.baseline:
                detail['baseline'] = {'rc': int(rcs.get('baseline', -1))}
            results.append((m, detail))
            shutil.rmtree(d, ignore_errors=True)
            caught = [c for c in m['checks'] if detail[c]['rc'] == 1]
            print(f'{"CAUGHT" if caught else "MISSED"}  {m["name"]:45s} ' + ' '.join(f'{c}:{detail[c]["rc"]}{detail[c]["mech"] if detail[c]["rc"] == 1 else ""}' for c in m['checks']) + (f' baseline_rc={detail["baseline"]["rc"]}' if args.baseline else ''), flush=True)
    missed = [m['name'] for m, d in results if 'error' not in d and not any(d[c]['rc'] == 1 for c in m['checks'])]
    errs = [(m['name'], d['error']) for m, d in results if 'error' in d]
    print(f'\n{len(results) - len(missed) - len(errs)}/{len(results)} mutants caught; missed: {missed}; not applicable: {errs}')


if __name__ == '__main__':
    main()
