#!/usr/bin/env python3
"""Rewrite DESIGN.md section 10 (seeded changes) from seeded/*/meta.json."""
import glob, json, os, subprocess
root = os.path.dirname(os.path.dirname(os.path.abspath(__file__)))
metas = {}
for f in sorted(glob.glob(os.path.join(root, 'seeded', '*', 'meta.json'))):
    metas[os.path.basename(os.path.dirname(f))] = json.load(open(f))
rounds = sorted({k.split('-')[1] for k in metas})
n = len(metas)
notes_file = os.path.join(root, 'seeded', 'NOTES.json')
notes = json.load(open(notes_file)) if os.path.exists(notes_file) else {}
strengthened = [k for k, m in metas.items() if k in notes or m.get('strengthened')]
table = subprocess.run(['python3', os.path.join(root, 'tools', 'seeded_table.py')], capture_output=True, text=True).stdout
text = f'''## 10. Seeded changes: which checks catch which

{n} breaking changes were written by independent sub-agents in {len(rounds)} rounds ({", ".join(rounds)}), each agent given only
the text of one property and its own scratch git worktree of /repo under /tmp (nothing from /verif),
and asked for a change that still passes the repository's tests and needs something specific to
manifest.  Round a was unconstrained; round b had to attack a different clause / code site than
round a; round c was steered towards two cooperating sites, state carried across calls, interactions
of two features and boundaries; round d towards option forwarding on one path only, alternative entry
points, unusual-but-legal argument types, state after an exception and ordering assumptions.  Each
change was confirmed here before being kept (`tools/seeded.py`: scratch worktree of /repo HEAD, patch
applied, `bin/baseline` still 240/240, `demo.py` fails with the change and passes without it), then the
property's check ran against it (quick tier, `FSIC_REPO=<worktree>`).  Kept under `seeded/<id>-<round>/`
(patch.diff, demo.py, meta.json with what was run and the result).  Re-run: `tools/seeded.py seeded/<name> <name>`.

Outcome: all {n} are caught.  {len(strengthened)} of them were *missed by the first version of the targeted check* and led
to a stronger workload or oracle (noted in the last column); the rest were caught unchanged.  The
recurring lesson is that fresh objects and parse_model-only inputs hide history-dependent breaks: the
checks now also exercise objects that reach their state through earlier operations (look-ups, reindex,
copies, repeated solves, repeated builds), caller-supplied shared inputs, re-ordered symbol lists and
alternative entry points.  One general change came out of round c: an exception that propagates out of
the code under test on an input that is clean on the unchanged tree is reported as a violation
(`exception-from-code-under-test`) instead of crashing the shard (which would only be "inconclusive").

{table}
'''
p = os.path.join(root, 'DESIGN.md')
s = open(p).read()
a = s.index('## 10. Seeded changes')
open(p, 'w').write(s[:a] + text)
print('section 10 rewritten:', n, 'changes,', len(strengthened), 'strengthened')
