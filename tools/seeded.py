#!/venv/bin/python
"""Confirm a seeded change and run checks against it.

usage: tools/seeded.py <outdir with patch.diff demo.py meta.json> <name> [CHECK ...] [--tier quick|thorough] [--keep]
Applies the patch to /repo (git apply), runs the repository tests, the demonstration and the
named checks, then undoes the patch (git checkout) and re-runs the demonstration.  With --keep,
stores the confirmed change under /verif/seeded/<name>/."""
import json, os, shutil, subprocess, sys

ROOT = os.path.dirname(os.path.dirname(os.path.abspath(__file__)))


def sh(cmd, **kw):
    return subprocess.run(cmd, shell=True, capture_output=True, text=True, **kw)


def main():
    args = [a for a in sys.argv[1:] if not a.startswith('--')]
    out, name, checks = args[0], args[1], args[2:]
    tier = 'thorough' if '--thorough' in sys.argv else 'quick'
    patch = os.path.join(out, 'patch.diff')
    meta = json.load(open(os.path.join(out, 'meta.json'))) if os.path.exists(os.path.join(out, 'meta.json')) else {}
    if not checks:
        checks = [meta.get('property', name.split('-')[0])]
    # evaluate on a scratch worktree of /repo's HEAD (checks are pointed at it with FSIC_REPO), so that /repo itself is never touched
    wt = f'/tmp/seedeval-{name}-{os.getpid()}'
    sh(f'git -C /repo worktree add --detach {wt} HEAD')
    res = {'checks': {}}
    try:
        r = sh(f'git -C {wt} apply --check {patch}')
        if r.returncode:
            r3 = sh(f'git -C {wt} apply --3way {patch}')
            if r3.returncode:
                print('patch does not apply to the current /repo HEAD:', r.stderr[:500])
                return 2
        else:
            sh(f'git -C {wt} apply {patch}')
        env = dict(os.environ, FSIC_REPO=wt)
        d0 = None
        b = sh('bin/baseline', cwd=ROOT, env=env)
        res['tests_with_change'] = b.stdout.strip().splitlines()[0] if b.stdout.strip() else b.stderr[-300:]
        res['tests_pass_with_change'] = b.returncode == 0
        d = sh(f'cd {wt} && /venv/bin/python {out}/demo.py')
        res['demo_with_change_rc'] = d.returncode
        res['demo_with_change_tail'] = (d.stdout + d.stderr)[-300:]
        for c in checks:
            k = sh(f'bin/check {c} --tier {tier} --no-evidence', cwd=ROOT, env=env)
            mech = sorted({l.strip().split()[0] for l in k.stdout.splitlines() if l.strip().startswith('mechanism=')})
            res['checks'][c] = {'rc': k.returncode, 'tier': tier, 'mechanisms': mech, 'violation_line': 'VIOLATION property=' in k.stdout}
        sh(f'git -C {wt} checkout -- .')
        d = sh(f'cd {wt} && /venv/bin/python {out}/demo.py')
        res['demo_without_change_rc'] = d.returncode
    finally:
        sh(f'git -C /repo worktree remove --force {wt}')
    confirmed = res.get('tests_pass_with_change') and res.get('demo_with_change_rc', 0) != 0 and res['demo_without_change_rc'] == 0
    res['confirmed'] = bool(confirmed)
    caught = [c for c, v in res['checks'].items() if v['rc'] == 1 and v['violation_line']]
    res['caught_by'] = caught
    print(json.dumps(res, indent=1))
    if '--keep' in sys.argv and confirmed:
        dst = os.path.join(ROOT, 'seeded', name)
        os.makedirs(dst, exist_ok=True)
        if os.path.abspath(patch) != os.path.abspath(os.path.join(dst, 'patch.diff')):
            shutil.copy(patch, os.path.join(dst, 'patch.diff'))
        if os.path.abspath(out) != os.path.abspath(dst):
            shutil.copy(os.path.join(out, 'demo.py'), os.path.join(dst, 'demo.py'))
        meta.update({'breaks_property': meta.get('property', name.split('-')[0]), 'origin': 'independent sub-agent given only the property text and a scratch worktree',
                     'what_i_ran': 'scratch worktree of /repo HEAD under /tmp: git apply patch.diff; FSIC_REPO=<worktree> bin/baseline (repository tests); cd <worktree> && /venv/bin/python demo.py; ' + '; '.join(f'FSIC_REPO=<worktree> bin/check {c} --tier {tier}' for c in checks) + '; git checkout -- .; demo.py again; worktree removed (equivalent to git -C /repo apply / checkout, without touching /repo)',
                     'confirmation': {k: res[k] for k in ('tests_with_change', 'tests_pass_with_change', 'demo_with_change_rc', 'demo_without_change_rc')},
                     'checks': res['checks'], 'caught_by': caught})
        json.dump(meta, open(os.path.join(dst, 'meta.json'), 'w'), indent=1)
        print('kept as', dst)
    return 0


if __name__ == '__main__':
    sys.exit(main())
