#!/usr/bin/env python3
"""Print the markdown table of confirmed seeded changes (DESIGN.md section 10) from seeded/*/meta.json."""
import glob, json, os
root = os.path.dirname(os.path.dirname(os.path.abspath(__file__)))
notes = json.load(open(os.path.join(root, 'seeded', 'NOTES.json'))) if os.path.exists(os.path.join(root, 'seeded', 'NOTES.json')) else {}
print('| seeded change | what it does | needs to manifest | caught by (quick tier) |')
print('|---|---|---|---|')
for f in sorted(glob.glob(os.path.join(root, 'seeded', '*', 'meta.json'))):
    m = json.load(open(f))
    name = os.path.basename(os.path.dirname(f))
    def short(x, n):
        x = ' '.join(str(x).split()).replace('|', '/')
        return x if len(x) <= n else x[:n - 1] + '…'
    caught = []
    for c, v in m.get('checks', {}).items():
        if v.get('rc') == 1:
            caught.append(c + ' ' + ', '.join(x.replace('mechanism=', '') for x in v.get('mechanisms', [])[:2]))
    note = notes.get(name, m.get('strengthened', ''))
    print(f"| {name} | {short(m.get('summary', ''), 170)} | {short(m.get('needs_to_manifest', ''), 150)} | {'; '.join(caught) or 'MISSED'}{' — ' + note if note else ''} |")
