#!/bin/bash
# usage: tools/evalseed.sh <ID> <suffix> [CHECK ...]   (evaluates /tmp/seed/out-<ID>-<suffix>, keeps it if confirmed)
id=$1; suf=$2; shift 2
cd "$(dirname "${BASH_SOURCE[0]}")/.."
timeout 1800 tools/seeded.py /tmp/seed/out-$id-$suf $id-$suf "$@" --keep 2>&1 | python3 -c "
import sys, json
t=sys.stdin.read()
try:
    j=json.loads(t[:t.rindex('}')+1]); print('$id-$suf', 'confirmed', j['confirmed'], 'tests', j.get('tests_pass_with_change'), 'demo', j.get('demo_with_change_rc'), j.get('demo_without_change_rc'), 'caught_by', j['caught_by'], {k:(v['rc'], v['mechanisms'][:3]) for k,v in j['checks'].items()})
except Exception as e: print('$id-$suf ERR', e, t[-800:])
"
git -C /repo worktree remove --force /tmp/seed/wt-$id-$suf 2>/dev/null
