"""Source mutations used to validate the monitors (each must be caught by at least one
of the listed checks).  `old` must occur in the file; the first occurrence is replaced."""
P = 'fsic/parser.py'
M = 'fsic/core/models.py'
I = 'fsic/core/interfaces.py'
C = 'fsic/core/containers.py'
L = 'fsic/core/linkers.py'
F = 'fsic/functions.py'
X = 'fsic/extensions/common.py'
XM = 'fsic/extensions/model.py'
T = 'fsic/tools.py'
FT = 'fsic/fortran.py'

MUTANTS = [
    # ---- C01 ----
    dict(name='c01-lead-sign-flipped', file=P, old="index = f'[t+{self.index_}]'", new="index = f'[t-{self.index_}]'", checks=['C01', 'C20']),
    dict(name='c01-single-digit-index', file=P, old='index = int(index_)', new='index = int(index_[-1]) * (-1 if index_.strip().startswith("-") else 1)', checks=['C01', 'C03']),
    dict(name='c01-forward-span-replacement', file=P, old='for match in reversed(list(term_re.finditer(equation))):\n        # Skip Python keywords', new='for match in list(term_re.finditer(equation)):\n        # Skip Python keywords', checks=['C01']),
    dict(name='c01-max-to-np-max', file=P, old="'max': 'max',", new="'max': 'np.max',", checks=['C01']),
    dict(name='c01-log-to-log10', file=P, old="'log': 'np.log',", new="'log': 'np.log10',", checks=['C01']),
    dict(name='c01-params-read-at-lag', file=P, old="        # Otherwise, access as a regular internal variable\n        return 'self._' + code", new="        if self.type == Type.PARAMETER and self.index_ == 0:\n            return 'self._' + self.name + '[t-1]'\n        return 'self._' + code", checks=['C01']),
    dict(name='c01-implicit-index-dropped', file=P, old="            if index_ is None:\n                index = 0", new="            if index_ is None:\n                index = -1 if groupdict['_ERROR'] else 0", checks=['C01', 'C03']),
    dict(name='c01-whitespace-eats-operator', file=P, old="template = re.sub(r'\\(\\s+', '(', template)", new="template = re.sub(r'\\(\\s*-\\s+', '(', template)", checks=['C01', 'C14']),
    # ---- C03 ----
    dict(name='c03-type-promotion-min', file=P, old='combined_type = max(self.type, other.type)', new='combined_type = min(self.type, other.type)', checks=['C03']),
    dict(name='c03-combine-loses-zero', file=P, old='outcome = function(this, that, 0)', new='outcome = function(this, that)', checks=['C03']),
    dict(name='c03-leads-min', file=P, old="leads = resolve_by_type_pair(self.leads, other.leads, max)", new="leads = resolve_by_type_pair(self.leads, other.leads, min)", checks=['C03', 'C01']),
    dict(name='c03-min-lags-applied-to-explicit', file=P, old="            lags = 0\n\n        lags = max(lags, min_lags)", new="            lags = 0\n\n    if True:\n        lags = max(lags, min_lags)", checks=['C03']),
    dict(name='c03-names-order-changed', file=P, old='    NAMES: List[str] = ENDOGENOUS + EXOGENOUS + PARAMETERS + ERRORS\n    CHECK: List[str] = ENDOGENOUS\n\n    LAGS: int = {lags}', new='    NAMES: List[str] = EXOGENOUS + ENDOGENOUS + PARAMETERS + ERRORS\n    CHECK: List[str] = ENDOGENOUS\n\n    LAGS: int = {lags}', checks=['C03', 'C15']),
    dict(name='c03-double-definition-accepted', file=P, old="                if old != new:\n                    raise ParserError(", new="                if False:\n                    raise ParserError(", checks=['C03']),
    dict(name='c03-default-start-off-by-one', file=I, old='start = self.span[self.lags]', new='start = self.span[max(self.lags - 1, 0)]', checks=['C03', 'C04', 'C05']),
    dict(name='c03-default-end-off-by-one', file=I, old='end = self.span[-1 - self.leads]', new='end = self.span[-1 - max(self.leads - 1, 0)]', checks=['C03', 'C04', 'C05']),
    # ---- C02 ----
    dict(name='c02-tol-le', file=M, old='if np.all(np.abs(diff) < tol):', new='if np.all(np.abs(diff) <= tol):', checks=['C02']),
    dict(name='c02-min-iter-le', file=M, old='if iteration < min_iter:', new='if iteration <= min_iter:', checks=['C02']),
    dict(name='c02-range-short', file=M, old='for iteration in range(1, max_iter + 1):', new='for iteration in range(1, max(max_iter, 1)):', checks=['C02']),
    dict(name='c02-all-to-any', file=M, old='if np.all(np.abs(diff) < tol):', new='if np.any(np.abs(diff) < tol):', checks=['C02']),
    dict(name='c02-iterations-off-by-one-on-failure', file=M, old="        self.status[t] = status\n        self.iterations[t] = iteration\n", new="        self.status[t] = status\n        self.iterations[t] = iteration - (1 if status == 'F' else 0)\n", checks=['C02']),
    dict(name='c02-offset-wrong-direction', file=M, old="self.__dict__['_' + name][t] = self.__dict__['_' + name][t + offset]", new="self.__dict__['_' + name][t] = self.__dict__['_' + name][t - offset]", checks=['C02']),
    dict(name='c02-after-hook-every-pass', file=M, old="            if iteration < min_iter:\n                continue\n", new="            self.solve_t_after(t, errors=errors, catch_first_error=catch_first_error, iteration=iteration, **kwargs) if iteration < min_iter else None\n            if iteration < min_iter:\n                continue\n", checks=['C02']),
    dict(name='c02-min-gt-max-checked-late', file=M, old="        # Error if `min_iter` exceeds `max_iter`\n        if min_iter > max_iter:\n            raise ValueError(\n                f'Value of `min_iter` ({min_iter}) '\n                f'cannot exceed value of `max_iter` ({max_iter})'\n            )\n\n        # Optionally copy", new="        # Optionally copy", checks=['C02']),
    dict(name='c02-offset-upper-bound-check-removed', file=M, old="            if t_check + offset >= len(self.span):", new="            if False:", checks=['C02', 'C04']),
    dict(name='c02-solve-period-off-by-one', file=I, old="        return self.solve_t(\n            t,\n            min_iter=min_iter,\n            max_iter=max_iter,\n            tol=tol,\n            offset=offset,\n            failures=failures,\n            errors=errors,\n            catch_first_error=catch_first_error,\n            **kwargs,\n        )\n\n    def solve_t(", new="        return self.solve_t(\n            t,\n            min_iter=min_iter,\n            max_iter=max_iter,\n            tol=tol,\n            failures=failures,\n            errors=errors,\n            catch_first_error=catch_first_error,\n            **kwargs,\n        )\n\n    def solve_t(", checks=['C02', 'C05']),
    # ---- C06 ----
    dict(name='c06-previous-nonfinite-continue-removed', file=M, old="            if np.any(~np.isfinite(previous_values)):\n                continue", new="            if False:\n                continue", checks=['C06']),
    dict(name='c06-E-not-recorded-on-exception', file=M, old="                    if errors == 'raise':\n                        self.status[t] = SolutionStatus.ERROR.value\n                        self.iterations[t] = iteration\n\n                    raise SolutionError(", new="                    raise SolutionError(", checks=['C06']),
    dict(name='c06-skip-falls-through', file=M, old="                    status = SolutionStatus.SKIPPED.value\n                    break", new="                    status = SolutionStatus.SKIPPED.value", checks=['C06']),
    dict(name='c06-error-filter-wrong-policy', file=M, old="                if errors == 'raise' and catch_first_error:\n                    # Immediately raise", new="                if errors == 'raise':\n                    # Immediately raise", checks=['C06']),
    dict(name='c06-ignore-boundary-moved', file=M, old="                elif errors == 'ignore':\n                    if iteration == max_iter:", new="                elif errors == 'ignore':\n                    if iteration >= max_iter - 1:", checks=['C06']),
    dict(name='c06-chaining-dropped', file=M, old="                        f'in period with label: {self.span[t]} (index: {t})'\n                    ) from e\n\n            current_values", new="                        f'in period with label: {self.span[t]} (index: {t})'\n                    )\n\n            current_values", checks=['C06']),
    dict(name='c06-replace-not-replacing', file=M, old="                        current_values[~np.isfinite(current_values)] = 0.0\n                        continue", new="                        continue", checks=['C06']),
    dict(name='c06-preexisting-check-any-policy', file=M, old="        if errors == 'raise' and np.any(~np.isfinite(current_values)):", new="        if np.any(~np.isfinite(current_values)):", checks=['C06']),
    dict(name='c06-solve-swallows-exception', file=I, old="            solved[i] = self.solve_t(\n                t,\n                min_iter=min_iter,", new="            solved[i] = self.solve_t(\n                t,\n                min_iter=min(min_iter, 1),", checks=['C05', 'C02']),
    # ---- C04 ----
    dict(name='c04-feasibility-check-removed', file=M, old='if not self.lags <= t_position < len(self.span) - self.leads:', new='if False:', checks=['C04']),
    dict(name='c04-lags-too-short', file=P, old='lags = abs(min(s.lags for s in non_indexed_symbols))', new='lags = max(abs(min(s.lags for s in non_indexed_symbols)) - 1, 0)', checks=['C04', 'C03']),
    dict(name='c04-offset-lower-bound-check-removed', file=M, old='            if t_check + offset < 0:', new='            if False:', checks=['C04', 'C02']),
    dict(name='c04-status-written-before-nan-guard', file=M, old="        status = SolutionStatus.UNSOLVED.value\n        current_values = get_check_values()\n\n        # Raise an exception if there are pre-existing", new="        status = SolutionStatus.UNSOLVED.value\n        self.status[t] = status\n        self.iterations[t] = 0\n        current_values = get_check_values()\n\n        # Raise an exception if there are pre-existing", checks=['C04', 'C02']),
    dict(name='c04-solve-t-resets-next-period-status', file=M, old="        self.status[t] = status\n        self.iterations[t] = iteration\n\n        if status == SolutionStatus.FAILED.value and failures", new="        self.status[t] = status\n        self.iterations[t] = iteration\n        if t + 1 < len(self.span):\n            self.iterations[t + 1] = -1\n            self.status[t + 1] = SolutionStatus.UNSOLVED.value\n\n        if status == SolutionStatus.FAILED.value and failures", checks=['C04', 'C05']),
    # ---- C05 ----
    dict(name='c05-range-end-plus-one-dropped', file=I, old="self._locate_period_in_span(start), self._locate_period_in_span(end) + 1\n        )\n\n        return PeriodIter", new="self._locate_period_in_span(start), self._locate_period_in_span(end)\n        )\n\n        return PeriodIter", checks=['C05', 'C03']),
    dict(name='c05-labels-sliced-wrong', file=I, old='return PeriodIter(indexes, self.span[indexes.start : indexes.stop])', new='return PeriodIter(indexes, self.span[indexes.start + 1 : indexes.stop + 1] if indexes.stop < len(self.span) else self.span[indexes.start : indexes.stop])', checks=['C05']),
    dict(name='c05-end-validation-dropped', file=I, old="        if end is not None and not isinstance(self._locate_period_in_span(end), int):\n            raise KeyError(end)\n\n        period_iter", new="        period_iter", checks=['C05']),
    dict(name='c05-offset-not-forwarded', file=I, old="                tol=tol,\n                offset=offset,\n                failures=failures,\n                errors=errors,\n                catch_first_error=catch_first_error,\n                **kwargs,\n            )\n\n        return labels, indexes, solved", new="                tol=tol,\n                failures=failures,\n                errors=errors,\n                catch_first_error=catch_first_error,\n                **kwargs,\n            )\n\n        return labels, indexes, solved", checks=['C05']),
    dict(name='c05-locate-valueerror-leaks', file=C, old="                    try:\n                        return index_function(period)\n                    except Exception as e:", new="                    try:\n                        return index_function(period)\n                    except KeyError as e:", checks=['C05', 'C10']),
    # ---- C17 ----
    dict(name='c17-trace-t-mutates-model', file=XM, old="        results = np.array([[self[x][t]] for x in names])", new="        results = np.array([[self[x][t]] for x in names])\n        self.iterations[t] = self.iterations[t] + 0 if label != 3 else self.iterations[t] + 1", checks=['C17']),
    dict(name='c17-evaluate-kwargs-not-forwarded', file=XM, old="        super()._evaluate(\n            t, *args, trace=trace, reset=reset, iteration=iteration, **kwargs\n        )", new="        super()._evaluate(\n            t, *args, trace=trace, reset=reset, iteration=iteration\n        )", checks=['C17']),
    dict(name='c17-pass-label-off-by-one', file=XM, old="            self.trace_t(t, iteration, *args, trace=trace, reset=reset, **kwargs)", new="            self.trace_t(t, iteration - 1, *args, trace=trace, reset=reset, **kwargs)", checks=['C17']),
    dict(name='c17-if-trace-removed-from-after', file=XM, old="        # Store final results\n        if trace:", new="        # Store final results\n        if True:", checks=['C17']),
    dict(name='c17-trace-before-evaluate', file=XM, old="        super()._evaluate(\n            t, *args, trace=trace, reset=reset, iteration=iteration, **kwargs\n        )\n\n        # Store results *after* each iteration\n        if trace:\n            self.trace_t(t, iteration, *args, trace=trace, reset=reset, **kwargs)", new="        if trace:\n            self.trace_t(t, iteration, *args, trace=trace, reset=reset, **kwargs)\n        super()._evaluate(\n            t, *args, trace=trace, reset=reset, iteration=iteration, **kwargs\n        )", checks=['C17']),
    dict(name='c17-solve-t-drops-offset-when-traced', file=XM, old="        return super().solve_t(t, *args, trace=trace, reset=reset, **kwargs)", new="        if trace:\n            kwargs.pop('offset', None)\n        return super().solve_t(t, *args, trace=trace, reset=reset, **kwargs)", checks=['C17']),
    dict(name='c17-trace-names-reordered', file=XM, old="            names = trace\n        else:", new="            names = sorted(trace)\n        else:", checks=['C17']),
    dict(name='c17-start-snapshot-after-offset', file=XM, old="        if trace:\n            self.trace_t(t, 'start', *args, trace=trace, reset=reset, **kwargs)\n\n        return super().solve_t", new="        if trace and kwargs.get('tol', 1) < 1e-9:\n            self.trace_t(t, 'start', *args, trace=trace, reset=reset, **kwargs)\n        elif trace:\n            self.trace_t(t, 'start', *args, trace=trace, reset=True, **kwargs)\n\n        return super().solve_t", checks=['C17']),
]
