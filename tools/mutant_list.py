"""Source mutations used to validate the monitors (each must be caught by at least one
of the listed checks).  `old` must occur in the file; the first occurrence is replaced."""
P = 'fsic/parser.py'
M = 'fsic/core/models.py'
I = 'fsic/core/interfaces.py'
C = 'fsic/core/containers.py'
L = 'fsic/core/linkers.py'
F = 'fsic/functions.py'
X = 'fsic/extensions/common.py'
XM = 'fsic/extensions/model.py'
T = 'fsic/tools.py'
FT = 'fsic/fortran.py'

MUTANTS = [
    # ---- C01 ----
    dict(name='c01-lead-sign-flipped', file=P, old="index = f'[t+{self.index_}]'", new="index = f'[t-{self.index_}]'", checks=['C01', 'C20']),
    dict(name='c01-single-digit-index', file=P, old='index = int(index_)', new='index = int(index_[-1]) * (-1 if index_.strip().startswith("-") else 1)', checks=['C01', 'C03']),
    dict(name='c01-forward-span-replacement', file=P, old='for match in reversed(list(term_re.finditer(equation))):\n        # Skip Python keywords', new='for match in list(term_re.finditer(equation)):\n        # Skip Python keywords', checks=['C01']),
    dict(name='c01-max-to-np-max', file=P, old="'max': 'max',", new="'max': 'np.max',", checks=['C01']),
    dict(name='c01-log-to-log10', file=P, old="'log': 'np.log',", new="'log': 'np.log10',", checks=['C01']),
    dict(name='c01-params-read-at-lag', file=P, old="        # Otherwise, access as a regular internal variable\n        return 'self._' + code", new="        if self.type == Type.PARAMETER and self.index_ == 0:\n            return 'self._' + self.name + '[t-1]'\n        return 'self._' + code", checks=['C01']),
    dict(name='c01-implicit-index-dropped', file=P, old="            if index_ is None:\n                index = 0", new="            if index_ is None:\n                index = -1 if groupdict['_ERROR'] else 0", checks=['C01', 'C03']),
    dict(name='c01-whitespace-eats-operator', file=P, old="template = re.sub(r'\\(\\s+', '(', template)", new="template = re.sub(r'\\(\\s*-\\s+', '(', template)", checks=['C01', 'C14']),
    # ---- C03 ----
    dict(name='c03-type-promotion-min', file=P, old='combined_type = max(self.type, other.type)', new='combined_type = min(self.type, other.type)', checks=['C03']),
    dict(name='c03-combine-loses-zero', file=P, old='outcome = function(this, that, 0)', new='outcome = function(this, that)', checks=['C03']),
    dict(name='c03-leads-min', file=P, old="leads = resolve_by_type_pair(self.leads, other.leads, max)", new="leads = resolve_by_type_pair(self.leads, other.leads, min)", checks=['C03', 'C01']),
    dict(name='c03-min-lags-applied-to-explicit', file=P, old="            lags = 0\n\n        lags = max(lags, min_lags)", new="            lags = 0\n\n    if True:\n        lags = max(lags, min_lags)", checks=['C03']),
    dict(name='c03-names-order-changed', file=P, old='    NAMES: List[str] = ENDOGENOUS + EXOGENOUS + PARAMETERS + ERRORS\n    CHECK: List[str] = ENDOGENOUS\n\n    LAGS: int = {lags}', new='    NAMES: List[str] = EXOGENOUS + ENDOGENOUS + PARAMETERS + ERRORS\n    CHECK: List[str] = ENDOGENOUS\n\n    LAGS: int = {lags}', checks=['C03', 'C15']),
    dict(name='c03-double-definition-accepted', file=P, old="                if old != new:\n                    raise ParserError(", new="                if False:\n                    raise ParserError(", checks=['C03']),
    dict(name='c03-default-start-off-by-one', file=I, old='start = self.span[self.lags]', new='start = self.span[max(self.lags - 1, 0)]', checks=['C03', 'C04', 'C05']),
    dict(name='c03-default-end-off-by-one', file=I, old='end = self.span[-1 - self.leads]', new='end = self.span[-1 - max(self.leads - 1, 0)]', checks=['C03', 'C04', 'C05']),
]
